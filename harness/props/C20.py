"""C20 — `ls` reports the header values stored in the image for samples and programs."""
from __future__ import annotations

import os
import re
import struct

import fam_akai as FA
import fam_e2e as E
import gen_akai as GA
import gen_akai_prog as GP
import gen_roland as GR
from common import Case, Finding, Report, run_driver

ASSUMPTIONS = [
    "field layouts of the oracle (gen_akai_prog.HEADER/KEYGROUP/ZONE, gen_akai.SampleFile, gen_roland) are the formats as frozen at the pinned tree; they coincide with the published S1000 SysEx layout",
    "tuning bytes are compared as bytes: the printed double is mapped back through the table of the 256 values parse_akai_tune_cents can produce",
    "the per-zone extras (key tracking, aux out, sample start) are compared only when the non-empty zones are the leading slots; the property lists sample name and velocity range for zones",
    "switch parameters are stored as 0/1 (any non-zero byte prints True)",
]

LOOP_TYPES = ["Loop in release", "Loop until release", "No loop", "Play until end", "Loop as sample"]
ROLAND_MODES = ["Forward End", "Forward Release", "Oneshot", "Forward Oneshot", "Alternate", "Reverse Oneshot", "Reverse Loop"]
NOTE_NAMES = ["A", "A#", "B", "C", "C#", "D", "D#", "E", "F", "F#", "G", "G#"]


def note_from_a0(rel: int) -> str:
    """note `rel` semitones above A0 in the tool's convention: the octave number changes at A (A0 .. G#0, A1 ..), so that C3 is 39 above A0."""
    return f"{NOTE_NAMES[rel % 12]}{rel // 12}"


def parse_tree(out: str):
    """stdout of `ls <item>` -> (header line, {flat/key: value}, truncated?)."""
    lines = FA.canon_ls(out)
    if len(lines) < 2:
        return None, {}, False
    flat, stack, truncated = {}, [], False
    for l in lines[2:]:
        if l.startswith("(...) exceeded"):
            truncated = True
            break
        if not l.strip():
            continue
        depth = (len(l) - len(l.lstrip(" "))) // 2
        body = l.strip()
        m = re.match(r"^([^:]*):(?: (.*))?$", body)
        if not m:
            flat["?unparsed"] = body
            continue
        key, val = m.group(1), m.group(2)
        mi = re.match(r"^(.*)\[(\d+)\]$", key)
        comp = mi.group(2) if mi else key
        stack = stack[:depth] + [comp]
        if val is not None:
            flat["/".join(stack)] = val
    return lines[0], flat, truncated


def compare(rep: Report, klass: str, expected: dict, flat: dict, truncated: bool, detail: dict):
    for k, want in expected.items():
        if k.startswith("#") or "/#" in k:
            continue
        got = flat.get(k)
        if got is None:
            if truncated:
                continue
            rep.findings.append(Finding(klass + "-value-missing", dict(detail, key=k, want=want)))
            return False
        if got != want:
            fld = re.sub(r"/\d+", "", k)
            rep.findings.append(Finding(klass + "-wrong-value:" + fld, dict(detail, key=k, want=want, got=got)))
            return False
    return True


# ------------------------------------------------------------------ AKAI


def akai_sample(rng, name):
    n = rng.randint(1, 40)
    loops = []
    for _ in range(rng.randint(0, 8)):
        at = rng.randrange(1, 1 << 24)
        if len(loops) == 1:
            at = 0  # S167: the second loop of every sample ends at 0 - a stored value like any other
        loops.append(GA.Loop(at=at, fine=rng.randrange(65536), coarse=rng.randrange(0, 1 << 20), duration=rng.choice([0, 0, 1, 50, 9998, 9999, rng.randrange(65536)])))
    s = GA.SampleFile(name, GA.random_words(rng, n), start=rng.randrange(1 << 24), end=rng.randrange(1 << 24), rate=rng.choice([0, 0, 22050, 44100, rng.randrange(1, 65536)]),
                      s3000=rng.random() < 0.5, note=rng.randrange(24, 128), sname=rng.choice(["INNER", "SMP " + name[:6], name, "X.1"]), loop_type=rng.randrange(5),
                      cents=rng.randrange(-128, 128), semi=rng.randrange(-128, 128), loops=loops)
    return s


def akai_sample_expected(s: GA.SampleFile) -> dict:
    exp = {
        "file_name": s.name, "sample_name": s.sname if s.sname is not None else s.name, "sample_type": "S3000 Sample" if s.s3000 else "S1000 Sample",
        "sample_rate": str(s.rate or 44100), "bytes_per_sample": "2", "samples_cnt": str(s.count_field()), "start_sample": str(s.start),
        "end_sample": str(len(s.words) if s.end is None else s.end), "note_pitch": note_from_a0(s.note - 21), "pitch_cents": f"cents#{s.cents}", "pitch_semi": str(s.semi),
        "loop_type": LOOP_TYPES[s.loop_type],
    }
    active = [l for l in s.loops if l.duration > 0] if s.loop_type != 2 else []
    for j, l in enumerate(active):
        exp[f"loop_entries/{j}/loop_end"] = str(l.at)
        exp[f"loop_entries/{j}/loop_duration"] = str(l.duration)
    exp["#loops"] = str(len(active))
    return exp


def akai_round(rep: Report, ctx, rng, cases, tag, layouts=None):
    names = rng.sample(["KICK", "SNARE", "PAD", "BASS", "LEAD", "STR", "ORGAN", "TOM 1", "FX.1"], rng.randint(1, 4))
    files = [akai_sample(rng, n) for n in names]
    progs = []
    if layouts:
        # targeted: one program per requested chain layout, with at least two links
        for pn, lay in zip(GP.PROG_NAMES, layouts):
            pr = GP.random_program(rng, pn, nkg=rng.choice([2, 3, 4]), layout=lay)
            progs.append(pr)
            files.append(pr)
            rep.feat("akai_program_chain_" + lay)
    for pn in ([] if layouts else rng.sample(GP.PROG_NAMES, rng.randint(1, 2))):
        pr = GP.random_program(rng, pn)
        progs.append(pr)
        files.append(pr)
    rng.shuffle(files)
    size = sum(-(-len(f.content()) // 8192) for f in files) + 10
    disc = GA.Disc([GA.Partition([GA.Volume("VOL", files, s3000=rng.random() < 0.5, dir_mode=rng.choice(["chain", "run"]))], sectors=size)])
    img, info = GA.serialize(disc, rng)
    with E.Scratch() as s:
        p = s.write("x.img", img)
        paths = ["A:/VOL"] + ["A:/VOL/" + f.name for f in files]
        outs = {}
        for path in paths:
            out, err = E.ls_real(p, path)
            outs[path] = (out, err)
        model = None
        if ctx.model_available:
            model = run_driver([f"akai all {p} " + " ".join(FA.hxs(x) for x in paths)], timeout=900)[0].split(" || ")
        for k, path in enumerate(paths):
            out, err = outs[path]
            impl = "err " + err if err else "ok " + " ".join(FA.hxs(l) for l in FA.canon_ls(out))
            cases.append(Case(f"akai ls [{tag}] {path}", impl, {"model": model[k + 1] if model and len(model) > k + 1 else (model[0] if model else None)}))
    for f in files:
        out, err = outs["A:/VOL/" + f.name]
        detail = {"image": tag, "item": f.name, "kind": f.kind}
        rep.evaluations += 1
        rep.nontrivial.add((tag, f.name))
        if err or "was not found" in out:
            rep.findings.append(Finding(f"akai-{f.kind}-not-listed", dict(detail, error=err, out=out[:200])))
            continue
        head, flat, trunc = parse_tree(out)
        if f.kind == "sample":
            exp = akai_sample_expected(f)
            ok = compare(rep, "akai-sample", exp, flat, trunc, detail)
            nl = len({k.split("/")[1] for k in flat if k.startswith("loop_entries/")})
            if ok and not trunc and str(nl) != exp["#loops"]:
                rep.findings.append(Finding("akai-sample-wrong-loop-count", dict(detail, want=exp["#loops"], got=nl)))
            rep.feat("akai_samples")
            rep.feat("akai_active_loops", int(exp["#loops"]))
            want_head = f"{f.name}    {'S3000 Sample' if f.s3000 else 'S1000 Sample'}"
        else:
            exp = f.expected()
            exp["file_name"] = f.name
            ok = compare(rep, "akai-program", exp, flat, trunc, detail)
            nk = len({k.split("/")[1] for k in flat if k.startswith("keygroups/")})
            if ok and not trunc and str(nk) != exp["#keygroups"]:
                rep.findings.append(Finding("akai-program-wrong-keygroup-count", dict(detail, want=exp["#keygroups"], got=nk)))
            if ok and not trunc:
                for i in range(len(f.keygroups)):
                    nz = len({k.split("/")[3] for k in flat if k.startswith(f"keygroups/{i}/velocity_zones/")})
                    if str(nz) != exp[f"keygroups/{i}/#zones"]:
                        rep.findings.append(Finding("akai-program-wrong-zone-count", dict(detail, keygroup=i, want=exp[f"keygroups/{i}/#zones"], got=nz)))
                        break
            rep.feat("akai_programs")
            rep.feat("akai_keygroups", len(f.keygroups))
            rep.feat("akai_program_layout_" + ("standard" if f.addrs is None else "sequential" if not f.linked else "custom-addresses"))
            if trunc:
                rep.feat("akai_program_listing_capped")
            want_head = f"{f.name}    {'S3000 Program' if f.s3000 else 'S1000 Program'}"
        if head is not None and head.rstrip() != want_head:
            rep.findings.append(Finding(f"akai-{f.kind}-wrong-heading", dict(detail, want=want_head, got=head)))


# ------------------------------------------------------------------ Roland


def roland_expected(s: GR.Sample) -> dict:
    se = len(s.words) - 1 if s.sus_end is None else s.sus_end
    re_ = len(s.words) - 1 if s.rel_end is None else s.rel_end
    exp = {"sample_mode": "Mono", "sampling_frequency": str(GR.FREQ[s.freq]), "sustain_loop_enable": "1", "sustain_loop_tune": "2", "release_loop_tune": "3",
           "original_key": note_from_a0(s.key - 21), "loop_mode": ROLAND_MODES[s.mode]}
    fn = s.fines if s.fines is not None else [s.fine, 1, 2, 3, 4]
    for k, (addr, fine) in {"start_sample": (s.start, fn[0]), "sustain_loop_start": (s.sus_start, fn[1]), "sustain_loop_end": (se, fn[2]), "release_loop_start": (s.rel_start, fn[3]), "release_loop_end": (re_, fn[4])}.items():
        exp[f"{k}/fine"] = str(fine)
        exp[f"{k}/address"] = str(addr & 0xFFFFFF)
    return exp


def roland_round(rep: Report, ctx, rng, cases, tag):
    disc = GR.random_disc(rng)
    while not GR.expected_export(disc):
        disc = GR.random_disc(rng)
    for s in disc.samples.values():
        # ls does not read audio: give every loop point its own value, independent of the data length
        s.start, s.sus_start, s.sus_end, s.rel_start, s.rel_end = (rng.randrange(1 << 24) for _ in range(5))
        s.fines = [rng.choice([0, 127, 128, 255, rng.randrange(256)]) for _ in range(5)]
    img, info = GR.serialize(disc, rng)
    exp_paths = sorted(GR.expected_export(disc))
    with E.Scratch() as s:
        p = s.write("x.img", img)
        paths = [x[:-4] for x in exp_paths][: ctx.n(4, 12)]
        outs = {path: E.ls_real(p, path) for path in paths}
        model = None
        if ctx.model_available and paths:
            model = run_driver([f"akai all {p} " + " ".join(FA.hxs(x) for x in paths)], timeout=900)[0].split(" || ")
        for k, path in enumerate(paths):
            out, err = outs[path]
            impl = "err " + err if err else "ok " + " ".join(FA.hxs(l) for l in FA.canon_ls(out))
            cases.append(Case(f"roland ls [{tag}] {path}", impl, {"model": model[k + 1] if model and len(model) > k + 1 else (model[0] if model else None)}))
    by_name = {smp.name: smp for smp in disc.samples.values()}
    for path in paths:
        out, err = outs[path]
        smp = by_name[path.split("/")[-1]]
        detail = {"image": tag, "item": path}
        rep.evaluations += 1
        rep.nontrivial.add((tag, path))
        if err or "was not found" in out:
            rep.findings.append(Finding("roland-sample-not-listed", dict(detail, error=err, out=out[:200])))
            continue
        head, flat, trunc = parse_tree(out)
        compare(rep, "roland-sample", roland_expected(smp), flat, trunc, detail)
        rep.feat("roland_samples")
        rep.feat("roland_mode_%d" % smp.mode)
        rep.feat("roland_freq_%d" % smp.freq)


# ------------------------------------------------------------------ CDDA


def cdda_round(rep: Report, ctx, rng, tag, cases=None):
    ntr = rng.randint(1, 6)
    lens = [rng.randint(1, 9) for _ in range(ntr)]
    lines = ['FILE "x.bin" BINARY']
    pos, starts = 0, []
    for t in range(ntr):
        lines += [f"  TRACK {t + 1:02d} AUDIO", f'    TITLE "Cut {t + 1}"', f"    INDEX 01 00:00:{pos:02d}"]
        starts.append(pos)
        pos += lens[t]
    tail = rng.choice([0, 0, 4, 1000, 2351])
    with E.Scratch() as s:
        s.write("x.bin", bytes(pos * 2352 + tail))
        p = s.write("x.cue", ("\n".join(lines) + "\n").encode())
        model = None
        if ctx.model_available and cases is not None:
            model = run_driver([f"akai all {p} " + " ".join(FA.hxs(f"Cut {t + 1}") for t in range(ntr))], timeout=600)[0].split(" || ")
        for t in range(ntr):
            out, err = E.ls_real(p, f"Cut {t + 1}")
            if model is not None:
                impl = "err " + err if err else "ok " + " ".join(FA.hxs(l) for l in FA.canon_ls(out))
                cases.append(Case(f"cdda ls [{tag}] Cut {t + 1}", impl, {"model": model[t + 1] if len(model) > t + 1 else model[0]}))
            frames = lens[t] * 588  # whole CD frames; slack after the last frame is not audio
            exp = {"title": f"Cut {t + 1}", "num_channels": "2", "sample_rate": "44100", "bytes_per_sample": "2", "num_audio_samples": str(frames)}
            detail = {"image": tag, "item": f"Cut {t + 1}", "cue": lines, "bin_len": pos * 2352 + tail}
            rep.evaluations += 1
            rep.nontrivial.add((tag, t))
            if err or "was not found" in out:
                rep.findings.append(Finding("cdda-track-not-listed", dict(detail, error=err)))
                continue
            head, flat, trunc = parse_tree(out)
            compare(rep, "cdda-track", exp, flat, trunc, detail)
            rep.feat("cdda_tracks")


def run(ctx, rep: Report, deep: bool = False):
    rng = ctx.rng
    rep.rule = (
        "generated images in which every header field carries its own random in-range value: AKAI samples (names, type, rate incl. 0, counts, markers, tuning bytes, loop mode, 0-8 loop entries), "
        "AKAI programs (every header field; 1-5 keygroups at standard, gapped, shuffled, backward-linked, zigzag or sequential addresses with a stray next-address on the last, plus targeted images with one program per chain layout; 0-4 non-empty velocity zones in leading or scattered slots), "
        "Roland samples (mode, frequency code, loop mode, five 24-bit addresses with their fine bytes), CDDA tracks; `ls <item>` parsed back into key/value pairs and compared with the stored values; "
        "the same listings compared line by line with the Lean model (AKAI, Roland, CDDA); distinct = (image, item); non-trivial = every item"
    )
    cases = []
    for i in range(ctx.n(8, 120)):
        akai_round(rep, ctx, rng, cases, f"akai{i}")
    for i in range(ctx.n(2, 12)):
        akai_round(rep, ctx, rng, cases, f"akai-chain{i}", layouts=["backward", "zigzag", "shuffled", "gaps"])
    for i in range(ctx.n(2, 20)):
        roland_round(rep, ctx, rng, cases, f"roland{i}")
    for i in range(ctx.n(6, 60)):
        cdda_round(rep, ctx, rng, f"cdda{i}", cases)
    if ctx.model_available:
        bad = 0
        for c in cases:
            model = (c.meta or {}).get("model")
            if model != c.impl:
                bad += 1
                if len(rep.disagreements) < 50:
                    rep.disagreements.append({"family": "ls-e2e", "op": c.op, "model": (model or "")[:3000], "impl": c.impl[:3000], "meta": None})
        rep.families["ls-e2e"] = {"cases": len(cases), "disagreements": bad}
        if cases:
            rep.sample({"family": "ls-e2e", "op": cases[0].op, "result": cases[0].impl[:300]})
    rep.required_features = ["akai_samples", "akai_programs", "akai_keygroups", "akai_active_loops", "roland_samples", "cdda_tracks", "akai_program_layout_custom-addresses", "akai_program_chain_backward", "akai_program_chain_zigzag"]


def search(ctx, rep: Report):
    if not rep.findings:
        sub = Report("C20")
        run(ctx, sub, deep=True)
        rep.findings.extend(sub.findings)


def replay(ctx, payload) -> bool:
    return True
