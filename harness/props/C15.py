"""C15 — on a truncated image every reported file is a well-formed prefix."""
from __future__ import annotations

import importlib
import os
import struct

import fam_akai as FA
import fam_e2e as E
import gen_akai as GA
import gen_roland as GR
from common import Case, Finding, Report, run_driver

ASSUMPTIONS = [
    "the image file is cut (the .bin for CDDA; the cue sheet itself is not cut)",
    "a path that exists only in the truncated run (one half of a left/right pair whose partner is lost) is compared with that sample's own audio",
    "'lies before the cut' is decided on a superset of the bytes the file needs: partition header + allocation table, its own directory entry and the entries before it (byte-exact), every sector/cluster of its own chain (both halves for a pair); Roland: all metadata areas precede the data",
]

riff_ok = None


def _riff_ok():
    global riff_ok
    if riff_ok is None:
        import props.C04 as c4

        riff_ok = c4.riff_ok
    return riff_ok


def pcm_of(wav: bytes):
    w = E.wav_info(wav)
    return w if w.get("ok") else None


def deinterleave(pcm: bytes):
    l = b"".join(pcm[i:i + 2] for i in range(0, len(pcm) - 3, 4))
    r = b"".join(pcm[i + 2:i + 4] for i in range(0, len(pcm) - 3, 4))
    return l, r


class Subject:
    """one generated image with what the complete image yields and what each path needs."""

    def __init__(self, kind, files, main, cut_file, expected, needs, cuts, singles):
        self.kind, self.files, self.main, self.cut_file = kind, files, main, cut_file
        self.expected, self.needs, self.cuts, self.singles = expected, needs, cuts, singles


def akai_subject(rng, full: bool) -> Subject:
    disc = GA.random_disc(rng, small=True)
    for p in disc.partitions:
        for v in p.volumes:
            if rng.random() < 0.4:
                v.dir_first = True
    img, info = GA.serialize(disc, rng)
    exp = GA.expected_export(disc)
    byfile = {}
    shown = {pi: GA.shown_names([v.name.upper().rstrip() for v in p.volumes]) for pi, p in enumerate(disc.partitions)}
    for f in info["files"]:
        letter = chr(ord("A") + f["part"])
        # the directory bytes this file needs: its own entry and the ones before it (the table is scanned in order),
        # i.e. the first (entry + 1) * 24 bytes of the directory stream - not the whole directory (S96)
        n = (f["entry"] + 1) * 24
        last = (n - 1) // 8192
        dir_end = max([(s + 1) * 8192 for s in f["dsecs"][:last]] + [f["dsecs"][last] * 8192 + (n - 1) % 8192 + 1])
        end = f["pstart"] + max(24574, dir_end, (max(f["secs"]) + 1) * 8192)
        byfile[(letter, shown[f["part"]][f["vi"]], f["name"].upper().rstrip())] = end
    needs, singles = {}, {}
    for pi, p in enumerate(disc.partitions):
        letter = chr(ord("A") + pi)
        for vi, v in enumerate(p.volumes):
            vn = shown[pi][vi]
            for f in v.files:
                if f.kind == "sample":
                    nm = f.name.upper().rstrip()
                    end = len(f.words) if f.end is None else f.end
                    singles[f"{letter}/{vn}/{nm}.wav"] = b"".join(struct.pack("<H", w) for w in f.words[f.start:end])
    for path, want in exp.items():
        letter, vn, stem = path[:-4].split("/")
        if want["channels"] == 1:
            needs[path] = byfile[(letter, vn, stem)]
        else:
            ends = [e for (l, v, n), e in byfile.items() if l == letter and v == vn and n.startswith(stem) and n[-1] in "LR" and n[:-1].rstrip(" -") == stem]
            needs[path] = max(ends) if len(ends) == 2 else None
    cuts = set()
    nsec = len(img) // 8192
    for k in range(nsec + 1):
        for d in (-1, 0, 1) + ((139, 140, 141, 4095, 4096, 4236) if full or rng.random() < 0.25 else ()):
            c = k * 8192 + d
            if 0 < c < len(img):
                cuts.add(c)
    # inside every partition header: size word, magic, each field of the first volume entries, odd offsets in the SAT
    pstarts = sorted({f["pstart"] for f in info["files"]} | {0})
    for ps in pstarts:
        for c in (1, 2, 3, 100, 201, 202, 203, 213, 214, 215, 216, 217, 218, 230, 231, 233, 1801, 1802, 1803, 5000, 5001, 24573, 24574, 24575):
            if 0 < ps + c < len(img):
                cuts.add(ps + c)
    # inside the directories: between entries and inside them
    for f in info["files"]:
        base = f["pstart"] + f["dsecs"][0] * 8192
        for c in (f["entry"] * 24 + 1, f["entry"] * 24 + 23, (f["entry"] + 1) * 24, (f["entry"] + 1) * 24 + 9, (f["entry"] + 1) * 24 + 10):
            if rng.random() < 0.5 and 0 < base + c < len(img):
                cuts.add(base + c)
    for _ in range(20):
        cuts.add(rng.randrange(1, len(img)))
    return Subject("akai", {"x.img": img}, "x.img", "x.img", exp, needs, sorted(cuts), singles)


def roland_targeted_disc(rng) -> "GR.Disc":
    """forward, reverse one-shot, reverse loop and forward-release samples of 2-4 clusters each, one performance."""
    W = GR.random_words
    ss = {
        0: GR.Sample("Fwd", W(rng, 3 * 4608), mode=2, freq=1),
        1: GR.Sample("RevShot", W(rng, 4 * 4608), mode=5, freq=3),
        2: GR.Sample("RevLoop", W(rng, 2 * 4608 + 777), start=100, sus_end=2 * 4608 + 500, mode=6, freq=0),
        3: GR.Sample("Rel", W(rng, 3 * 4608), start=7, sus_end=5000, rel_end=3 * 4608 - 1, mode=1, freq=2),
    }
    return GR.Disc([GR.Volume("V", [0])], {0: GR.Performance("P", [0])}, {0: GR.Patch("Q", [0])}, {0: GR.Partial("R", [0, 1, 2, 3])}, ss)


def roland_subject(rng, full: bool, targeted: bool = False) -> Subject:
    disc = roland_targeted_disc(rng) if targeted else GR.random_disc(rng)
    img, info = GR.serialize(disc, rng, ("head-not-lowest", "reversed", "random")) if targeted else GR.serialize(disc, rng)
    exp = {k: dict(channels=1, rate=v["rate"], pcm=v["pcm"]) for k, v in GR.expected_export(disc).items()}
    name_to_idx = {s.name: i for i, s in disc.samples.items()}
    needs = {}
    for path in exp:
        si = name_to_idx[path[:-4].split("/")[-1]]
        needs[path] = GR.DATA_FAT_OFF + (max(info["chains"][si]) + 1) * GR.CLUSTER
    cuts = set()
    maxc = max(c for ch in info["chains"].values() for c in ch)
    for c in range(2, maxc + 2):
        for d in (-1, 0, 1) + ((4095, 4096, 4097) if full else ()):
            x = GR.DATA_FAT_OFF + c * GR.CLUSTER + d
            if 0 < x < len(img):
                cuts.add(x)
    for x in (1, 285, 286, 511, 512, GR.FAT_OFF - 1, GR.FAT_OFF + 10, GR.FAT_OFF + 131071, GR.FAT_OFF + 131072, GR.DIR["vol"] + 5, GR.DIR["perf"] + 33, GR.DIR["samp"] + 40,
              GR.PAR["vol"][0] + 100, GR.PAR["perf"][0] + 300, GR.PAR["patch"][0] + 300, GR.PAR["part"][0] + 50, GR.PAR["samp"][0] + 30, GR.PAR["samp"][0] + 48 * 3 + 1, GR.DATA_FAT_OFF - 1, GR.DATA_FAT_OFF):
        if x < len(img):
            cuts.add(x)
    for _ in range(10):
        cuts.add(rng.randrange(GR.DATA_FAT_OFF, len(img)))
    return Subject("roland", {"x.img": img}, "x.img", "x.img", exp, needs, sorted(cuts), {})


def cdda_subject(rng, full: bool) -> Subject:
    ntr = rng.randint(1, 5)
    lens = [rng.randint(1, 6) for _ in range(ntr)]
    lines = ['FILE "x.bin" BINARY']
    pos = 0
    starts = []
    for t in range(ntr):
        lines.append(f"  TRACK {t + 1:02d} AUDIO")
        lines.append(f'    TITLE "Take {t + 1}"')
        lines.append(f"    INDEX 01 00:00:{pos:02d}")
        starts.append(pos)
        pos += lens[t]
    tail = rng.choice([0, 0, 100, 2352])
    data = bytes(((i * 131) >> 3) & 0xFF for i in range(pos * 2352 + tail))
    exp, needs = {}, {}
    for t in range(ntr):
        a = starts[t] * 2352
        b = (starts[t + 1] * 2352) if t + 1 < ntr else len(data)
        pcm = data[a:b]
        pcm = pcm[: len(pcm) // 4 * 4]
        exp[f"Take {t + 1}.wav"] = dict(channels=2, rate=44100, pcm=pcm)
        needs[f"Take {t + 1}.wav"] = b
    cuts = set()
    for k in range(pos + 1):
        for d in (-3, -1, 0, 1, 2, 4):
            c = k * 2352 + d
            if 0 < c < len(data):
                cuts.add(c)
    for _ in range(10):
        cuts.add(rng.randrange(1, len(data)))
    return Subject("cdda", {"x.cue": ("\n".join(lines) + "\n").encode(), "x.bin": data}, "x.cue", "x.bin", exp, needs, sorted(cuts), {})


def judge(rep: Report, subj: Subject, cut: int, files, exported, err, detail):
    ok = _riff_ok()
    kind = subj.kind
    if err == "hang":
        rep.findings.append(Finding(f"{kind}-truncated-export-hangs", detail))
        return
    for path in exported:
        wav = files.get(path)
        if wav is None:
            rep.findings.append(Finding(f"{kind}-reported-file-missing", dict(detail, path=path)))
            return
        why = ok(wav)
        if why:
            rep.findings.append(Finding(f"{kind}-truncated-wav-malformed-{why}", dict(detail, path=path, size=len(wav))))
            return
        w = E.wav_info(wav)
        want = subj.expected.get(path)
        if want is not None:
            if w["channels"] != want["channels"] or not want["pcm"].startswith(w["pcm"]):
                rep.findings.append(Finding(f"{kind}-truncated-pcm-not-a-prefix", dict(detail, path=path, got_len=len(w["pcm"]), want_len=len(want["pcm"]), channels=w["channels"])))
                return
        elif path in subj.singles:
            if w["channels"] != 1 or not subj.singles[path].startswith(w["pcm"]):
                rep.findings.append(Finding(f"{kind}-truncated-half-pair-not-a-prefix", dict(detail, path=path, got_len=len(w["pcm"]))))
                return
            rep.feat("half_of_pair_exported_alone")
        else:
            rep.findings.append(Finding(f"{kind}-truncated-run-invents-path", dict(detail, path=path)))
            return
    for path, end in subj.needs.items():
        if end is not None and end <= cut:
            wav = files.get(path)
            got = E.wav_info(wav)["pcm"] if wav is not None and E.wav_info(wav).get("ok") else None
            if path not in exported or got != subj.expected[path]["pcm"]:
                klass = f"{kind}-file-before-cut-" + ("not-exported" if path not in exported else "incomplete") + ("-export-aborted" if err else "")
                rep.findings.append(Finding(klass, dict(detail, path=path, needs_end=end, error=err, got_len=None if got is None else len(got), want_len=len(subj.expected[path]["pcm"]))))
                return
            rep.feat("complete_files_checked")
    if err:
        rep.feat("export_ended_with_error_" + err.split(":")[0])


_JOB = None


def _cut_job(job):
    """one cut of the current image (module global `_JOB`, inherited by fork): the image's files are written to a
    directory of their own with the cut file shortened, the real tool exports it (and, for the tie, lists it)."""
    k, cut = job
    subj, base, want_tie = _JOB
    d = os.path.join(base, f"cut{k}")
    os.makedirs(d, exist_ok=True)
    for n, b in subj.files.items():
        with open(os.path.join(d, n), "wb") as f:
            f.write(b[:cut] if n == subj.cut_file else b)
    main = os.path.join(d, subj.main)
    files, exported, err = E.export_real(main)
    res = ls = None
    if want_tie:
        res, _, _, _ = FA.export_str(main)
        ls = FA.ls_str(main, "")
    return files, exported, err, res, ls


def run_subject(rep: Report, ctx, subj: Subject, cases, ncuts, tie: bool, tag: str):
    cuts = subj.cuts
    if len(cuts) > ncuts:
        step = len(cuts) / ncuts
        picked = sorted({cuts[int(i * step)] for i in range(ncuts)} | set(ctx.rng.sample(cuts, min(6, len(cuts)))) | {c for c in cuts if c % 8192 in (216, 217, 1801, 5001) and subj.kind == "akai"})
    else:
        picked = cuts
    with E.Scratch() as s:
        for n, b in subj.files.items():
            s.write(n, b)
        main = os.path.join(s.dir, subj.main)
        files, exported, err = E.export_real(main)
        if err or sorted(files) != sorted(subj.expected):
            rep.findings.append(Finding(f"{subj.kind}-complete-image-export-differs", {"tag": tag, "error": err, "files": sorted(files)[:10], "want": sorted(subj.expected)[:10]}))
            return
        # the reference is what the complete image yields (the property's wording); that it equals the logical
        # content is C01/C02/C03's business (a pair of unequal lengths is padded to the longer half there)
        for path, wav in files.items():
            w = E.wav_info(wav)
            subj.expected[path] = dict(subj.expected[path], pcm=w.get("pcm", b""), channels=w.get("channels"))
        # the cuts of one image are independent: the real tool runs on them in forked workers, each on its own copy
        # of the image's files; the model driver then reads the same cut files in one batch
        global _JOB
        whole = subj.files[subj.cut_file]
        want_tie = bool(tie and ctx.model_available)
        _JOB = (subj, s.dir, want_tie)
        jobs = list(enumerate(picked))
        if len(jobs) > 8:
            import multiprocessing as mp

            with mp.get_context("fork").Pool(min(14, os.cpu_count() or 2)) as pool:
                results = pool.map(_cut_job, jobs, chunksize=1)
        else:
            results = [_cut_job(j) for j in jobs]
        ops = []
        for (k, cut), (files, exported, err, res, ls) in zip(jobs, results):
            rep.evaluations += 1
            rep.nontrivial.add((tag, cut))
            rep.feat("cuts_" + subj.kind)
            detail = {"image": tag, "kind": subj.kind, "cut": cut, "size": len(whole), "exported": exported[:12], "error": err}
            judge(rep, subj, cut, files, exported, err, detail)
            if want_tie:
                ops.append((cut, res, ls, os.path.join(s.dir, f"cut{k}", subj.main)))
        if ops:
            outs = run_driver([f"akai all {m} {FA.hxs('')}" for _, _, _, m in ops], timeout=3600)
            for (cut, res, ls, _), o in zip(ops, outs):
                out = o.split(" || ")
                cases.append((f"{subj.kind} [{tag} cut {cut}]", res, ls, out[0], out[1] if len(out) > 1 else out[0]))


def run(ctx, rep: Report, deep: bool = False):
    rng = ctx.rng
    full = deep or not ctx.quick
    rep.rule = (
        "generated AKAI (directories before and after the data, all chain shapes, pairs), Roland S-7xx and CDDA images, cut at every sector / cluster / CD-frame boundary (-1, 0, +1; thorough also header-, block- and mid-sector offsets), "
        "inside the partition header, the allocation tables, directories, parameter areas, and at random offsets; oracle: every reported file is a well-formed WAV whose PCM is a prefix of the complete image's PCM for that path "
        "(per channel source for a half pair), and every file whose bytes all lie before the cut is reported and complete; AKAI/Roland cut images also go through the Lean model (export + ls); distinct = (image, cut); non-trivial = every cut"
    )
    cases = []
    plan = [("akai", akai_subject, ctx.n(3, 24), ctx.n(36, 400)), ("roland-targeted", (lambda r, f: roland_subject(r, f, True)), ctx.n(1, 4), ctx.n(30, 150)),
            ("roland", roland_subject, ctx.n(1, 8), ctx.n(10, 120)), ("cdda", cdda_subject, ctx.n(3, 20), ctx.n(30, 200))]
    for kind, mk, nimg, ncuts in plan:
        for i in range(nimg):
            subj = mk(rng, full)
            if not subj.expected:
                continue
            run_subject(rep, ctx, subj, cases, ncuts, True, f"{kind}{i}")
            rep.feat("images_" + kind.split("-")[0])
    if ctx.model_available:
        bad = 0
        for op, res, ls, mres, mls in cases:
            same = FA.eq_export(mres, res) and (mls == ls or (mls.startswith("err") and ls.startswith("err")))
            if not same:
                bad += 1
                if len(rep.disagreements) < 50:
                    rep.disagreements.append({"family": "truncated-e2e", "op": op, "model": mres[:400] + " || " + mls[:200], "impl": res[:400] + " || " + ls[:200], "meta": None})
        rep.families["truncated-e2e"] = {"cases": len(cases), "disagreements": bad}
        if cases:
            rep.sample({"family": "truncated-e2e", "op": cases[0][0], "result": cases[0][1][:200]})
    rep.required_features = ["images_akai", "images_roland", "images_cdda", "cuts_akai", "cuts_roland", "cuts_cdda", "complete_files_checked"]


def search(ctx, rep: Report):
    if not rep.findings:
        sub = Report("C15")
        run(ctx, sub, deep=True)
        rep.findings.extend(sub.findings)


def replay(ctx, payload) -> bool:
    return True
