"""C05 — left/right pairs merge into one stereo file; no sample is lost or duplicated."""
from __future__ import annotations

import io
import itertools
import re

import fam_names as FN
import fam_trans as FT
from common import Case, Finding, Report, compare_family, hx

ASSUMPTIONS = [
    "sibling export names are distinct (C06); pairing is decided on export names, as the exporter does",
    "mono 16-bit little-endian sources (AKAI, Roland); channel content is checked through the real combine_stereo + make_transcoder",
]

STEREO = re.compile(r"^(.*?)([\s-]+)(L|R)$")


def spec_pairs(names):
    """independent statement of the property on a list of distinct names: (pairs, monos)."""
    idx = {n: i for i, n in enumerate(names)}
    used, pairs = set(), []
    for i, n in enumerate(names):
        if i in used:
            continue
        m = STEREO.match(n)
        if m and m.group(3) == "L":
            # partner: same stem, any separator run?  the property: "differ only in a final L/R preceded by spaces or hyphens"
            alt = m.group(1) + m.group(2) + "R"
            j = idx.get(alt)
            if j is not None and j not in used:
                used.update((i, j))
                pairs.append((i, j, m.group(1)))
        elif m and m.group(3) == "R":
            alt = m.group(1) + m.group(2) + "L"
            j = idx.get(alt)
            if j is not None and j not in used:
                used.update((i, j))
                pairs.append((j, i, m.group(1)))
    monos = [i for i in range(len(names)) if i not in used]
    return pairs, monos


def oracle_combine(rep: Report, names, groups):
    seen = []
    for g in groups:
        seen += [g[1]] if g[0] == "m" else [g[1], g[2]]
    detail = {"names": list(names), "groups": [list(g) for g in groups]}
    if sorted(seen) != list(range(len(names))):
        kind = "lost" if len(set(seen)) < len(names) else "duplicated"
        dup_names = len(set(names)) < len(names)
        rep.findings.append(Finding(f"combine-sample-{kind}" + ("-duplicate-input-names" if dup_names else ""), detail))
        return
    if len(set(names)) < len(names):
        return
    pairs, monos = spec_pairs(names)
    got_pairs = sorted((g[1], g[2]) for g in groups if g[0] == "p")
    if got_pairs != sorted((l, r) for l, r, _ in pairs):
        rep.findings.append(Finding("combine-wrong-pairs", dict(detail, want=pairs)))
        return
    out_names = [names[g[1]] if g[0] == "m" else g[3] for g in groups]
    if len(set(out_names)) != len(out_names):
        rep.findings.append(Finding("stereo-stem-collides", dict(detail, out_names=out_names)))
        return
    if sum(1 if g[0] == "m" else 2 for g in groups) != len(names):
        rep.findings.append(Finding("combine-channel-count", detail))


def channel_check(rep: Report, rng):
    """frames of both halves preserved, L in channel 0, for both directory orders - whatever else the halves differ
    in: number of loop regions on each half (S102), sample rate, root note."""
    import os
    import tempfile

    from smpl_extract.data_streams import DataStream, StreamEncoding
    from smpl_extract.generalized.sample import LoopRegion, LoopType, Sample
    from smpl_extract.generalized.wav import export_wav
    from smpl_extract.midi import MidiNote, ScaleDegree

    def loops(n, frames):
        return [LoopRegion(start_sample=k, end_sample=max(k + 1, frames - 1 - k), loop_type=LoopType(1), repeat_forever=True, play_cnt=None, duration=None) for k in range(n)]

    tmp = tempfile.mkdtemp(prefix="verif_c05_")
    try:
        for order in ("LR", "RL"):
            for nl, nr in [(0, 0), (1, 0), (0, 1), (1, 2), (2, 1), (2, 2)]:
                for rates in ((44100, 44100), (22050, 44100), (44100, 22050)):
                    frames = rng.choice([1, 5, 2048, 2049, 5000])
                    L = bytes(rng.randrange(256) for _ in range(2 * frames))
                    R = bytes(rng.randrange(256) for _ in range(2 * frames))

                    def mk(n, d, nloops, rate, note):
                        return Sample(name=n, data_streams=[DataStream(io.BytesIO(d), StreamEncoding(sample_width=2))], _export_name=n, sample_rate=rate,
                                      loop_regions=loops(nloops, frames), midi_note=MidiNote(ScaleDegree(note % 7), False, 3))

                    ss = [mk("Pad -L", L, nl, rates[0], 0), mk("Pad -R", R, nr, rates[1], 5)]
                    if order == "RL":
                        ss.reverse()
                    detail = {"order": order, "loops_left": nl, "loops_right": nr, "rates": list(rates), "frames": frames}
                    out = FN.image().combine_stereo_routine(ss)
                    if len(out) != 1 or out[0].export_name != "Pad" or out[0].num_channels != 2:
                        rep.findings.append(Finding("combine-pair-not-merged", detail))
                        continue
                    path = os.path.join(tmp, "p.wav")
                    if os.path.exists(path):
                        os.remove(path)
                    export_wav(out[0], path)
                    wav = open(path, "rb").read()
                    pcm = wav[wav.index(b"data") + 8 :]
                    want = b"".join(L[2 * f : 2 * f + 2] + R[2 * f : 2 * f + 2] for f in range(frames))
                    rep.feat("stereo_channel_checks")
                    if pcm != want:
                        swapped = pcm == b"".join(R[2 * f : 2 * f + 2] + L[2 * f : 2 * f + 2] for f in range(frames))
                        rep.findings.append(Finding("stereo-channel-content" + ("-swapped" if swapped else ""), detail))
    finally:
        import shutil

        shutil.rmtree(tmp, ignore_errors=True)


def run(ctx, rep: Report, deep: bool = False):
    rng = ctx.rng
    full = deep or not ctx.quick
    rep.rule = (
        "exhaustive: stereo regex on every string of length <= 4 (thorough <= 5) over {A,L,R,' ','-','.','1'}; combine_stereo_routine on every list of <= 3 (thorough <= 4) DISTINCT names from the near-collision pool in every order; "
        "random lists over the AKAI alphabet and ASCII; channel content through the real combine_stereo + WAV builder for both directory orders; distinct = distinct op line; non-trivial = list containing at least one L/R-suffixed name"
    )
    cases = []
    for s in FN.all_strings(["A", "L", "R", " ", "-", ".", "1"], 5 if full else 4):
        cases.append(Case("names stereo " + FN.hxs(s), FN.stereo_real(s)))
        rep.feat("stereo_regex_exhaustive")
    pool = [FN.export(n, True) for n in FN.NEAR_POOL]
    pool = sorted(set(pool))
    maxl = 4 if full else 3
    cnt = 0
    for L in range(1, maxl + 1):
        for lst in itertools.permutations(pool, L):
            cnt += 1
            if L == 4 and cnt % 9 != ctx.seed % 9:
                continue
            groups = FN.combine_real(lst)
            cases.append(Case("names combine " + " ".join(FN.hxs(x) for x in lst), FN.combine_str(lst)))
            oracle_combine(rep, lst, groups)
            rep.feat("combine_lists_exhaustive")
            if any(g[0] == "p" for g in groups):
                rep.feat("lists_with_pairs")
    for i in range(ctx.n(400, 4000)):
        raw = [FN.random_name(rng, rng.choice(["akai", "near", "near", "ascii"])) for _ in range(rng.randint(1, 8))]
        if rng.random() < 0.6:
            stem = FN.random_name(rng, "akai").strip() or "S"
            sep = rng.choice([" ", "-", " -", "  ", "- "])
            raw += rng.sample([stem + sep + "L", stem + sep + "R", stem, stem + " L", stem + "-R"], rng.randint(2, 4))
        rng.shuffle(raw)
        # the exporter hands the routine names that went through the export-name pass
        names = FN.dedupe_real("export", [(r, True) for r in raw])
        if isinstance(names, str):
            continue
        groups = FN.combine_real(names)
        cases.append(Case("names combine " + " ".join(FN.hxs(x) for x in names), FN.combine_str(names)))
        oracle_combine(rep, names, groups)
        rep.feat("combine_lists_random")
    # same-stem families: up to three L/R pairs that differ only in the separator, with or without a
    # sibling named like the stem / like the first numbered stem (several pairs compete for stem names)
    seps = ["-", " ", " -"]
    fam = 0
    for choice in itertools.product(("none", "L", "R", "both"), repeat=3):
        for with_stem in (False, True):
            for with_num in (False, True):
                names = []
                for sp, c in zip(seps, choice):
                    if c in ("L", "both"):
                        names.append("KICK" + sp + "L")
                    if c in ("R", "both"):
                        names.append("KICK" + sp + "R")
                if with_stem:
                    names.append("KICK")
                if with_num:
                    names.append("KICK (2)")
                if not names:
                    continue
                for k in range(3 if (deep or not ctx.quick) else 2):
                    lst = list(names)
                    if k:
                        rng.shuffle(lst)
                    groups = FN.combine_real(lst)
                    cases.append(Case("names combine " + " ".join(FN.hxs(x) for x in lst), FN.combine_str(lst)))
                    oracle_combine(rep, lst, groups)
                    fam += 1
    rep.feat("same_stem_families", fam)
    # S193: names that end in L / R with NOTHING between the stem and the letter are not halves of a pair
    glued = 0
    for stem in ("TOM", "BEL", "A", "TOM1", "CAR", "X-", "HAL "):
        for extra in ((), ("PAD L", "PAD R"), (stem.strip() or "S",)):
            for order in (0, 1):
                lst = [stem.rstrip(" -") + "L", stem.rstrip(" -") + "R"] if stem[-1] in " -" else [stem + "L", stem + "R"]
                lst = (lst if order == 0 else lst[::-1]) + list(extra)
                if len(set(lst)) < len(lst):
                    continue
                groups = FN.combine_real(lst)
                cases.append(Case("names combine " + " ".join(FN.hxs(x) for x in lst), FN.combine_str(lst)))
                oracle_combine(rep, lst, groups)
                glued += 1
    rep.feat("glued_side_letters", glued)
    # duplicate input names (cannot happen after C06; model/impl correspondence only)
    for lst in [("A L", "A L", "A R"), ("A", "A"), ("A L", "A R", "A R")]:
        cases.append(Case("names combine " + " ".join(FN.hxs(x) for x in lst), FN.combine_str(lst)))
    channel_check(rep, rng)
    if ctx.model_available:
        compare_family(rep, "names-stereo", cases, nontrivial=lambda c: "4c" in c.op or "52" in c.op, exhaustive=True)
    rep.exhaustive = True
    rep.required_features = ["stereo_regex_exhaustive", "combine_lists_exhaustive", "lists_with_pairs", "combine_lists_random", "same_stem_families", "glued_side_letters"]


def search(ctx, rep: Report):
    if not rep.findings:
        sub = Report("C05")
        run(ctx, sub, deep=True)
        rep.findings.extend(sub.findings)


def replay(ctx, payload) -> bool:
    d = payload["input"]
    if "names" not in d:
        return True
    rep = Report("C05")
    oracle_combine(rep, d["names"], FN.combine_real(d["names"]))
    return not rep.findings
