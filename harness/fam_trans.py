"""Transcoder family (layer L3): real make_transcoder vs the Lean model; shared by C12, C04, C05, C15."""
from __future__ import annotations

import io
from contextlib import contextmanager
from typing import List, Optional, Sequence, Tuple

import impl
from common import hx

# a source = (big:0/1, width, nch, signed:0/1, data bytes)


@contextmanager
def patched(host_big: bool, block: int):
    """vary host byte order and internal block size from the harness process (no source hooks)."""
    from smpl_extract import data_streams as DS
    from smpl_extract import transcoder as T

    old_host = T.system_byte_order
    old_def = T.get_num_frames_possible.__defaults__
    T.system_byte_order = DS.Endianess.BIG if host_big else DS.Endianess.LITTLE
    T.get_num_frames_possible.__defaults__ = (block,)
    try:
        yield
    finally:
        T.system_byte_order = old_host
        T.get_num_frames_possible.__defaults__ = old_def


def enc_of(big, width, nch, signed):
    from smpl_extract.data_streams import Endianess, StreamEncoding

    return StreamEncoding(
        endianess=Endianess.BIG if big else Endianess.LITTLE, sample_width=width, num_interleaved_channels=nch, is_signed=bool(signed)
    )


def run_real(host_big: int, block: int, dest: Tuple[int, int, int, int], srcs: Sequence[tuple]) -> str:
    from smpl_extract.data_streams import DataStream
    from smpl_extract.transcoder import make_transcoder

    with patched(bool(host_big), block):
        try:
            streams = [DataStream(io.BytesIO(d), enc_of(b, w, n, s)) for (b, w, n, s, d) in srcs]
            tr = make_transcoder(streams, enc_of(*dest))
            blocks = [bytes(x) for x in tr]
        except Exception as e:
            return "err " + type(e).__name__
    return "ok " + " | ".join(hx(b) for b in blocks)


def op_line(host_big, block, dest, srcs) -> str:
    parts = [f"{host_big} {block} " + " ".join(map(str, dest))]
    for (b, w, n, s, d) in srcs:
        parts.append(f"{b} {w} {n} {s} {hx(d)}")
    return "trans " + " | ".join(parts)


def eq_masked(model: str, real: str) -> bool:
    """the model leaves padding samples unspecified (`??`)."""
    if len(model) != len(real):
        return False
    return all(m == r or m == "?" for m, r in zip(model, real))


def tagged_source(si: int, width: int, nch: int, frames: int, extra: int = 0) -> bytes:
    """distinct byte per (stream, channel, frame, byte position) so that any misrouting is visible."""
    out = bytearray()
    for f in range(frames):
        for c in range(max(1, nch)):
            for k in range(width):
                out.append((si * 64 + c * 16 + f * 4 + k * 1 + 1 + 37 * k) % 251)
    out += bytes([0xEE] * extra)
    return bytes(out)


def expected_le(srcs) -> Tuple[List[List[bytes]], int, int]:
    """spec: per output channel the list of little-endian samples; min and max whole-frame counts."""
    chans: List[List[bytes]] = []
    counts = []
    for (b, w, n, s, d) in srcs:
        n1 = max(1, n)
        fr = len(d) // (n1 * w)
        counts.append(fr)
        for c in range(n1):
            col = []
            for f in range(fr):
                smp = d[(f * n1 + c) * w : (f * n1 + c) * w + w]
                col.append(smp[::-1] if b else smp)
            chans.append(col)
    return chans, min(counts), max(counts)
