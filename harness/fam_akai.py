"""AKAI end-to-end family: real tool on generated images vs the Lean model; shared by C01, C14, C16, C20, C09."""
from __future__ import annotations

import re
from typing import Dict, List, Optional, Tuple

import fam_e2e as E
import gen_akai as G
from common import Case, hx


def hxs(s: str) -> str:
    return hx(s.encode("latin-1"))


_CENTS = None


def cents_table():
    global _CENTS
    if _CENTS is None:
        from smpl_extract.akai.data_types import parse_akai_tune_cents

        _CENTS = {str(parse_akai_tune_cents(b)): b for b in range(-128, 128)}
    return _CENTS


def canon_ls(out: str) -> List[str]:
    """stdout of ls -> list of lines; printed tuning doubles are mapped back to their byte."""
    lines = out.split("\n")
    while lines and lines[-1] == "":
        lines.pop()
    res = []
    for l in lines:
        m = re.match(r"^(\s*(?:pitch_cents|tune_cents): )(\S+)$", l)
        if m and m.group(2) in cents_table():
            l = f"{m.group(1)}cents#{cents_table()[m.group(2)]}"
        res.append(l)
    return res


def ls_str(image_path: str, path: str) -> str:
    out, err = E.ls_real(image_path, path)
    if err:
        return "err " + err
    return "ok " + " ".join(hxs(l) for l in canon_ls(out))


def export_str(image_path: str) -> Tuple[str, Dict[str, bytes], List[str], Optional[str]]:
    files, exported, err = E.export_real(image_path)
    if err:
        return "err " + err, files, exported, err
    parts = []
    for line in exported:
        rel = line
        data = files.get(rel)
        if data is None:
            parts.append(f"{hxs(rel)} missing")
        else:
            parts.append(f"{hxs(rel)} hex {hx(data)}")
    return "ok " + " ; ".join(parts), files, exported, None


def eq_export(model: str, real: str) -> bool:
    """model lines are `<path> fnv <len> <hash>` or `<path> hex <bytes with ??>`; real ones are always hex."""
    if model.startswith("err") or real.startswith("err"):
        return model == real
    m_items = model[3:].split(" ; ") if len(model) > 3 else []
    r_items = real[3:].split(" ; ") if len(real) > 3 else []
    if len(m_items) != len(r_items):
        return False
    for m, r in zip(m_items, r_items):
        mp, rp = m.split(" "), r.split(" ")
        if mp[0] != rp[0] or rp[1] != "hex":
            return False
        data = bytes.fromhex(rp[2]) if rp[2] != "-" else b""
        if mp[1] == "fnv":
            if int(mp[2]) != len(data) or int(mp[3]) != E.fnv(data):
                return False
        elif mp[1] == "hex":
            if len(mp[2]) != len(rp[2]) or any(a != b and a != "?" for a, b in zip(mp[2], rp[2])):
                return False
        else:
            return False
    return True


def ls_paths(disc: G.Disc) -> List[str]:
    """every node of the tree, by the names the generator gave (clean names: printed = stored)."""
    paths = [""]
    for pi, p in enumerate(disc.partitions):
        letter = chr(ord("A") + pi)
        paths.append(letter + ":")
        shown = G.shown_names([v.name.upper().rstrip() for v in p.volumes])
        for vi, v in enumerate(p.volumes):
            vn = shown[vi]
            paths.append(f"{letter}:/{vn}")
            for f in v.files:
                if f.kind == "sample":
                    paths.append(f"{letter}:/{vn}/{f.name.upper().rstrip()}")
    return paths
