#!/venv/bin/python
"""Apply a seeded change to /repo, confirm it (tests still pass, demo fails with it / passes without),
run the given property checks against it, and undo it straight afterwards.

usage: try_seeded.py <dir with patch.diff [+ demo.py]> <Cxx> [<Cyy> ...] [--tier quick|thorough]
"""
import json
import subprocess
import sys
from pathlib import Path

REPO = "/repo"
VERIF = Path(__file__).resolve().parent.parent


def sh(cmd, **kw):
    return subprocess.run(cmd, shell=True, capture_output=True, text=True, **kw)


def main():
    args = [a for a in sys.argv[1:] if not a.startswith("--")]
    tier = "quick"
    if "--tier" in sys.argv:
        tier = sys.argv[sys.argv.index("--tier") + 1]
        args = [a for a in args if a != tier]
    d = Path(args[0])
    props = args[1:]
    patch = d / "patch.diff"
    demo = d / "demo.py"
    res = {"patch": str(patch), "props": {}}
    st = sh(f"git -C {REPO} status --porcelain --untracked-files=no")
    if st.stdout.strip():
        print("refusing: /repo has uncommitted changes"); sys.exit(2)
    if demo.exists():
        r = sh(f"cd {REPO} && SMPL_REPO={REPO} PYTHONPATH={REPO} /venv/bin/python {demo}", timeout=900)
        res["demo_without"] = r.returncode
    ap = sh(f"git -C {REPO} apply {patch}")
    if ap.returncode != 0:
        print("patch does not apply:", ap.stderr); sys.exit(2)
    try:
        t = sh(f"cd {REPO} && /venv/bin/python -m pytest -q -p no:cacheprovider 2>&1 | tail -1", timeout=900)
        res["tests_with"] = t.stdout.strip()
        if demo.exists():
            r = sh(f"cd {REPO} && SMPL_REPO={REPO} PYTHONPATH={REPO} /venv/bin/python {demo}", timeout=900)
            res["demo_with"] = r.returncode
        for p in props:
            r = sh(f"cd {VERIF} && /venv/bin/python harness/check.py --property {p} --tier {tier}", timeout=3600)
            lines = [l for l in r.stdout.splitlines() if l.startswith("VIOLATION") or l.startswith(p + " ")]
            res["props"][p] = {"rc": r.returncode, "lines": [l[:300] for l in lines[:6]]}
    finally:
        sh(f"git -C {REPO} checkout -- .")
    print(json.dumps(res, indent=1))


if __name__ == "__main__":
    main()
