"""End-to-end runs of the real tool (`ls`, `export`) on image files, in a scratch directory."""
from __future__ import annotations

import contextlib
import io
import os
import shutil
import struct
import tempfile
from typing import Dict, List, Optional, Tuple

import impl


class Scratch:
    """temporary directory outside /repo and /verif; removed on exit."""

    def __enter__(self):
        self.dir = tempfile.mkdtemp(prefix="verif_e2e_")
        return self

    def __exit__(self, *a):
        shutil.rmtree(self.dir, ignore_errors=True)

    def write(self, name: str, data: bytes) -> str:
        p = os.path.join(self.dir, name)
        with open(p, "wb") as f:
            f.write(data)
        return p


def export_real(image_path: str, timeout: float = 60.0, sizes_only: bool = False):
    """-> ({relative path: wav bytes}, ['Exported …' paths], error class or None).
    sizes_only: the values are the file sizes (ints) — nothing of the output is
    held in the measuring process (C13 measures the tool's memory, not the harness's)."""
    from smpl_extract import actions as A

    out = tempfile.mkdtemp(prefix="verif_out_")
    buf = io.StringIO()
    err = None
    try:
        try:
            with impl.watchdog(timeout), contextlib.redirect_stdout(buf):
                A.export_samples_to_wav(image_path, out)
        except BaseException as e:  # noqa
            if isinstance(e, (KeyboardInterrupt, SystemExit)):
                raise
            err = impl.exc_name(e)
        files = {}
        for root, _, names in os.walk(out):
            for n in names:
                p = os.path.join(root, n)
                if sizes_only:
                    files[os.path.relpath(p, out)] = os.path.getsize(p)
                    continue
                with open(p, "rb") as f:
                    files[os.path.relpath(p, out)] = f.read()
        exported = [l[len("Exported "):] for l in buf.getvalue().splitlines() if l.startswith("Exported ")]
        return files, exported, err
    finally:
        shutil.rmtree(out, ignore_errors=True)


def ls_real(image_path, path: str, timeout: float = 30.0) -> Tuple[str, Optional[str]]:
    from smpl_extract import actions as A

    buf = io.StringIO()
    try:
        with impl.watchdog(timeout), contextlib.redirect_stdout(buf):
            A.ls_action(image_path, path)
    except BaseException as e:  # noqa
        if isinstance(e, (KeyboardInterrupt, SystemExit)):
            raise
        return buf.getvalue(), impl.exc_name(e)
    return buf.getvalue(), None


def wav_info(wav: bytes) -> dict:
    """channels, rate, raw data-chunk bytes, smpl header ints (if any)."""
    info = {"ok": False}
    if len(wav) < 12 or wav[:4] != b"RIFF" or wav[8:12] != b"WAVE":
        return info
    pos = 12
    while pos + 8 <= len(wav):
        cid, n = wav[pos : pos + 4], struct.unpack("<I", wav[pos + 4 : pos + 8])[0]
        body = wav[pos + 8 : pos + 8 + n]
        if cid == b"fmt " and n >= 16:
            tag, ch, rate, br, ba, bits = struct.unpack("<HHIIHH", body[:16])
            info.update(channels=ch, rate=rate, bits=bits, block_align=ba)
        elif cid == b"smpl" and n >= 36:
            info["smpl"] = list(struct.unpack("<9I", body[:36]))
            cnt = info["smpl"][7]
            info["loops"] = [list(struct.unpack("<6I", body[36 + 24 * i : 60 + 24 * i])) for i in range(cnt) if 60 + 24 * i <= n]
        elif cid == b"data":
            info["pcm"] = body
            info["ok"] = True
        pos += 8 + n
    return info


def fnv(data: bytes) -> int:
    h = 0xCBF29CE484222325
    for b in data:
        h = ((h ^ b) * 0x100000001B3) & 0xFFFFFFFFFFFFFFFF
    return h
