"""Independent AKAI S1000/S3000 image writer (from the format description, not from the parser):
logical disc model + allocation choice -> image bytes, and the export the property expects."""
from __future__ import annotations

import struct
from dataclasses import dataclass, field
from typing import Dict, List, Optional, Tuple

SECTOR = 8192
SAT_ENTRIES = 11386
VOL_ENTRIES = 100
SAT_FREE, SAT_EOF, SAT_RES1, SAT_RES2 = 0x0000, 0xC000, 0x4000, 0x8000
MAGIC = b"".join(int(3333 * i & 0xFFFF).to_bytes(2, "little") for i in range(1, 98))
HEADER_SECTORS = 3  # header (202) + 100 volume entries (1600) + SAT (22772) = 24574 bytes

_A2K = {**{ord("0") + i: i for i in range(10)}, ord(" "): 0x0A, **{ord("A") + i: 0x0B + i for i in range(26)},
        ord("#"): 0x25, ord("+"): 0x26, ord("-"): 0x27, ord("."): 0x28}


def akai_name(s: str, n: int = 12) -> bytes:
    b = bytes(_A2K[ord(c)] for c in s.upper())
    assert len(b) <= n
    return b + bytes([0x0A] * (n - len(b)))


@dataclass
class Loop:
    at: int = 0
    fine: int = 0
    coarse: int = 0
    duration: int = 0


@dataclass
class SampleFile:
    name: str
    words: List[int]  # unsigned 16-bit sample words
    start: int = 0
    end: Optional[int] = None
    rate: int = 44100
    s3000: bool = False
    note: int = 60
    sname: Optional[str] = None
    loop_type: int = 2  # LOOP_INACTIVE
    cents: int = 0  # signed byte
    semi: int = 0
    loops: List[Loop] = field(default_factory=list)
    kind: str = "sample"
    count: Optional[int] = None  # the header's word-count field when it is NOT the number of stored words (S155):
    # the played window is given by the markers alone, the count is only shown

    def count_field(self) -> int:
        return len(self.words) if self.count is None else self.count

    def content(self) -> bytes:
        end = len(self.words) if self.end is None else self.end
        h = bytearray()
        h += bytes([3 if self.s3000 else 1, 0, self.note])
        h += akai_name(self.sname if self.sname is not None else self.name)
        h += bytes(4)
        h += struct.pack("<Bbb", self.loop_type, self.cents, self.semi)
        h += bytes(4)
        h += struct.pack("<III", self.count_field(), self.start, end)
        loops = list(self.loops) + [Loop()] * (8 - len(self.loops))
        for l in loops[:8]:
            h += struct.pack("<IHIH", l.at, l.fine, l.coarse, l.duration)
        h += bytes(4)
        h += struct.pack("<H", self.rate)
        assert len(h) == 140, len(h)
        return bytes(h) + b"".join(struct.pack("<H", w) for w in self.words)

    @property
    def ftype(self) -> int:
        return 0xF3 if self.s3000 else 0x73


@dataclass
class RawFile:
    name: str
    data: bytes
    ftype: int = 0x64  # drum / effect / ... : listed by nothing, exported by nothing
    kind: str = "raw"

    def content(self) -> bytes:
        return self.data


@dataclass
class Volume:
    name: str
    files: list
    s3000: bool = False
    dir_mode: str = "chain"  # "chain" | "run"
    dir_sectors: int = 1
    dir_first: bool = False  # allocate the directory before the files (so that file data can be the last thing on the disc)
    stale: int = 0  # left-over entries BEHIND the end marker (files deleted earlier): well-formed sample entries that
    # point at live chains under other names; the table ends at the marker, so nothing of them may show (S148)


@dataclass
class Partition:
    volumes: List[Volume]
    sectors: int = 40
    slots: Optional[List[int]] = None  # table slot of each volume (strictly increasing); None = 0..n-1. Other slots are inactive entries.


@dataclass
class Disc:
    partitions: List[Partition]


def nsectors(nbytes: int) -> int:
    return max(1, -(-nbytes // SECTOR))


class Allocator:
    """hands out free sectors of one partition in the shape the caller asks for."""

    def __init__(self, rng, total: int):
        self.rng = rng
        self.free = list(range(HEADER_SECTORS, total))
        self.words = [0] * SAT_ENTRIES
        for s in range(HEADER_SECTORS):
            self.words[s] = SAT_RES1

    def take(self, n: int, shape: str) -> List[int]:
        rng = self.rng
        if len(self.free) < n:
            raise ValueError("partition too small")
        if shape == "contiguous":
            for i in range(len(self.free) - n + 1):
                blk = self.free[i : i + n]
                if blk[-1] - blk[0] == n - 1:
                    del self.free[i : i + n]
                    return blk
            shape = "random"
        if shape == "reversed":
            c = self.take(n, "contiguous")
            return c[::-1]
        if shape == "ends-fixed":
            # S118: the chain starts at the lowest and ends at the highest sector of a span of exactly n sectors, but
            # the inner sectors are linked in another order - or lie outside the span altogether
            blk = None
            for i in range(len(self.free) - n + 1):
                c = self.free[i : i + n]
                if c[-1] - c[0] == n - 1:
                    blk = c
                    break
            if n < 4 or blk is None:
                shape = "random"
            else:
                others = [f for f in self.free if f != blk[0] and f != blk[-1]]
                if rng.random() < 0.5 and len(others) >= n - 2:
                    inner = rng.sample(others, n - 2)
                else:
                    inner = blk[1:-1]
                while inner == sorted(inner):
                    rng.shuffle(inner)
                picks = [blk[0]] + inner + [blk[-1]]
                for p_ in picks:
                    self.free.remove(p_)
                return picks
        if shape in ("rotl", "hi-lo"):
            picks = sorted(rng.sample(self.free, n))
            if n > 1:
                # rotl: s1, s2, …, s_last, s0   (several undecoded sectors in a row, then a link DOWN to a decoded one)
                # hi-lo: upper half ascending, then lower half ascending  (e.g. 40,41,10,11)
                picks = picks[1:] + picks[:1] if shape == "rotl" else picks[n // 2 :] + picks[: n // 2]
            for p in picks:
                self.free.remove(p)
            return picks
        picks = rng.sample(self.free, n)
        if shape == "sorted":
            picks.sort()
        elif shape == "head-not-lowest":
            picks.sort()
            if n > 1:
                picks = picks[1:] + picks[:1] if rng.random() < 0.5 else [picks[-1]] + picks[:-1]
        for p in picks:
            self.free.remove(p)
        return picks

    def take_run(self, n: int) -> List[int]:
        """n consecutive sectors followed by a sector that will not be reserved-flagged."""
        for i in range(len(self.free) - n):
            blk = self.free[i : i + n + 1]
            if blk[-1] - blk[0] == n:
                del self.free[i : i + n + 1]  # the guard sector stays unused (word 0 = free)
                return blk[:n]
        raise ValueError("no run available")

    def chain(self, secs: List[int]):
        for a, b in zip(secs, secs[1:]):
            self.words[a] = b
        self.words[secs[-1]] = SAT_EOF

    def run(self, secs: List[int], flag=SAT_RES1):
        for s in secs:
            self.words[s] = flag


def serialize(disc: Disc, rng, shapes=("contiguous", "reversed", "random", "sorted", "head-not-lowest", "rotl", "hi-lo", "ends-fixed")) -> Tuple[bytes, dict]:
    """-> image bytes, info (chains chosen per file, for coverage statistics)."""
    out = bytearray()
    info = {"chains": [], "dir_modes": [], "exact_fill": 0, "head_not_lowest": 0, "files": []}
    for pi, p in enumerate(disc.partitions):
        pstart = len(out)
        part = bytearray(p.sectors * SECTOR)
        alloc = Allocator(rng, p.sectors)
        ventry_list = []
        for vi, v in enumerate(p.volumes):
            # files first (their start sectors go into the directory) unless the volume asks otherwise
            entries = bytearray()
            pre_dsecs = None
            vol_files = []
            if v.dir_first:
                nd0 = max(v.dir_sectors, nsectors(24 * (len(v.files) + 1 + v.stale)))
                run_ok = v.dir_mode == "run"
                if run_ok:
                    try:
                        pre_dsecs = alloc.take_run(nd0)
                        alloc.run(pre_dsecs, rng.choice([SAT_RES1, SAT_RES2]))
                    except ValueError:  # no run of consecutive free sectors left: fall back to a chain
                        run_ok = False
                if not run_ok:
                    pre_dsecs = alloc.take(nd0, rng.choice(shapes))
                    alloc.chain(pre_dsecs)
            for f in v.files:
                data = f.content()
                n = nsectors(len(data))
                shape = rng.choice(shapes)
                secs = alloc.take(n, shape)
                alloc.chain(secs)
                info["chains"].append(secs)
                vol_files.append({"part": pi, "pstart": pstart, "vol": v.name, "vi": vi, "entry": len(vol_files), "name": f.name, "kind": f.kind, "secs": list(secs), "nbytes": len(data)})
                if len(secs) > 1 and secs[0] != min(secs):
                    info["head_not_lowest"] += 1
                if len(data) % SECTOR == 0:
                    info["exact_fill"] += 1
                padded = data + bytes(n * SECTOR - len(data))
                for k, s in enumerate(secs):
                    part[s * SECTOR : (s + 1) * SECTOR] = padded[k * SECTOR : (k + 1) * SECTOR]
                entries += akai_name(f.name) + bytes(4) + bytes([f.ftype]) + len(data).to_bytes(3, "little") + struct.pack("<H", secs[0]) + bytes(2)
            table = bytes(entries) + bytes(8) + struct.pack("<H", 0xD747) + bytes(14)
            if v.stale and entries:
                live = [bytes(entries[k:k + 24]) for k in range(0, len(entries), 24)]
                for k in range(v.stale):
                    e = bytearray(live[k % len(live)])
                    e[0:12] = akai_name(f"OLD {k}")
                    table += bytes(e)
                info["stale_entries"] = info.get("stale_entries", 0) + v.stale
            nd = max(v.dir_sectors, nsectors(len(table)))
            if pre_dsecs is not None:
                dsecs = pre_dsecs
            else:
                mode_used = v.dir_mode
                dsecs = None
                if v.dir_mode == "run":
                    try:
                        dsecs = alloc.take_run(nd)
                        alloc.run(dsecs, rng.choice([SAT_RES1, SAT_RES2]))
                    except ValueError:  # the free sectors are too fragmented for a run: use a chain instead
                        dsecs = None
                        mode_used = "chain"
                if dsecs is None:
                    dsecs = alloc.take(nd, rng.choice(shapes))
                    alloc.chain(dsecs)
            info["dir_modes"].append(v.dir_mode)
            for vf in vol_files:
                vf["dsecs"] = list(dsecs)
                info["files"].append(vf)
            padded = table + bytes(nd * SECTOR - len(table))
            for k, s in enumerate(dsecs):
                part[s * SECTOR : (s + 1) * SECTOR] = padded[k * SECTOR : (k + 1) * SECTOR]
            ventry_list.append(akai_name(v.name) + struct.pack("<HH", 3 if v.s3000 else 1, dsecs[0]))
        slots = p.slots if p.slots is not None else list(range(len(p.volumes)))
        assert len(slots) == len(p.volumes) and all(a < b for a, b in zip(slots, slots[1:])) and (not slots or slots[-1] < VOL_ENTRIES)
        table = [akai_name("") + struct.pack("<HH", 0, 0)] * VOL_ENTRIES
        for slot, ent in zip(slots, ventry_list):
            table[slot] = ent
        ventries = b"".join(table)
        header = struct.pack("<H", p.sectors) + b"\x00\x00" + MAGIC + bytes([0x55, 0xBA]) + b"\x2f\x00"
        assert len(header) == 202
        sat = b"".join(struct.pack("<H", w) for w in alloc.words)
        head = header + bytes(ventries) + sat
        assert len(head) == 24574
        part[: len(head)] = head
        out += part
    return bytes(out), info


def shown_names(names: List[str]) -> List[str]:
    """sibling names as shown / written: the k-th (k >= 2) of a group of equal clean names gets ' (k)'
    (clean generated names never look like a numbered name themselves, so no further collision arises)."""
    seen: Dict[str, int] = {}
    out = []
    for n in names:
        seen[n] = seen.get(n, 0) + 1
        out.append(n if seen[n] == 1 else f"{n} ({seen[n]})")
    return out


def expected_export(disc: Disc) -> Dict[str, dict]:
    """what the property says export writes: path -> {channels, rate, pcm}. Names in generated discs
    are clean and unique, so the path is <partition letter>/<volume>/<stem>.wav."""
    import re

    exp = {}
    for pi, p in enumerate(disc.partitions):
        letter = chr(ord("A") + pi)
        folders = shown_names([v.name.upper().rstrip() for v in p.volumes])
        for vi, v in enumerate(p.volumes):
            vfolder = folders[vi]
            samples = [f for f in v.files if f.kind == "sample"]
            byname = {f.name.upper().rstrip(): f for f in samples}
            used = set()
            for f in samples:
                nm = f.name.upper().rstrip()
                if nm in used:
                    continue
                m = re.match(r"^(.*?)([\s-]+)(L|R)$", nm)
                partner = None
                if m:
                    alt = m.group(1) + m.group(2) + ("R" if m.group(3) == "L" else "L")
                    partner = byname.get(alt)
                def pcm(x):
                    end = len(x.words) if x.end is None else x.end
                    return b"".join(struct.pack("<H", w) for w in x.words[x.start : end])
                if partner is not None:
                    l, r = (f, partner) if m.group(3) == "L" else (partner, f)
                    used.update((l.name.upper().rstrip(), r.name.upper().rstrip()))
                    a, b = pcm(l), pcm(r)
                    n = min(len(a), len(b)) // 2
                    inter = b"".join(a[2 * i : 2 * i + 2] + b[2 * i : 2 * i + 2] for i in range(n))
                    exp[f"{letter}/{vfolder}/{m.group(1)}.wav"] = dict(channels=2, rate=l.rate or 44100, pcm=inter, frames_l=len(a) // 2, frames_r=len(b) // 2)
                else:
                    used.add(nm)
                    exp[f"{letter}/{vfolder}/{nm}.wav"] = dict(channels=1, rate=f.rate or 44100, pcm=pcm(f))
    return exp


# ------------------------------------------------------------------ random logical discs

NAMES = ["KICK", "SNARE", "HAT", "PAD", "BASS", "LEAD", "STR", "TOM 1", "FX.1", "CLAP", "RIDE#2", "A", "PIANO C3", "ORGAN"]


def random_words(rng, n):
    base = rng.randrange(65536)
    return [(base + 257 * i + rng.randrange(7)) & 0xFFFF for i in range(n)]


def random_disc(rng, small=True) -> Disc:
    parts = []
    for pi in range(rng.choice([1, 1, 2, 3] if not small else [1, 1, 2])):
        vols = []
        for vi in range(rng.randint(0, 3 if small else 4)):
            files = []
            names = rng.sample(NAMES, rng.randint(0, 5 if small else 6))
            for nm in names:
                r = rng.random()
                if r < 0.15:
                    files.append(RawFile(nm, bytes(rng.randrange(256) for _ in range(rng.randint(1, 300))), rng.choice([0x64, 0x71, 0x78])))
                    continue
                n = rng.choice([0, 1, 50, 1000, 4026, 4025, 4027, 8122, rng.randint(0, 9000)])  # 4026 words + 140 bytes = one sector exactly
                words = random_words(rng, n)
                mode = rng.randrange(4)
                start, end = 0, None
                if mode == 1 and n > 2:
                    start = rng.randint(0, n // 2)
                    end = rng.randint(start, n)
                elif mode == 2:
                    start = end = rng.randint(0, n)
                files.append(SampleFile(nm, words, start, end, rate=rng.choice([0, 22050, 44100, 48000, rng.randint(1, 65535)]), s3000=rng.random() < 0.5,
                                        note=rng.randint(21, 127), cents=rng.randint(-128, 127), semi=rng.randint(-50, 50)))
                if rng.random() < 0.3:
                    e_ = n if end is None else end
                    files[-1].count = rng.choice([e_ - start, max(0, e_ - 1), start, 0, n + 100])
            if rng.random() < 0.4:
                stem = rng.choice(["ST PAD", "WIDE", "GTR"])
                sep = rng.choice(["-", " ", " -"])
                n = rng.choice([10, 500, 4026])
                n2 = n if rng.random() < 0.7 else rng.randint(0, n + 20)
                pair = [SampleFile(stem + sep + "L", random_words(rng, n)), SampleFile(stem + sep + "R", random_words(rng, n2))]
                # the halves may differ in everything but the name: loops on one half only, another rate (S102)
                r = rng.random()
                if r < 0.35:
                    pair[1].loop_type = 0
                    pair[1].loops = [Loop(at=max(2, n2), fine=0, coarse=max(1, n2 // 2), duration=9999)]
                elif r < 0.5:
                    pair[0].loop_type = 0
                    pair[0].loops = [Loop(at=max(2, n), fine=0, coarse=max(1, n // 2), duration=50)]
                if rng.random() < 0.2:
                    pair[1].rate = 22050
                if rng.random() < 0.4:
                    # S175: the pair's rate is the left half's - and it is rarely 44100 on a real disc
                    pair[0].rate = pair[1].rate = rng.choice([22050, 32000, 48000, 37123, 11025])
                if rng.random() < 0.5:
                    pair.reverse()
                files += pair
                rng.shuffle(files)
            # sibling volumes may carry the same name (S78): they are told apart as NAME, NAME (2)
            vname = vols[0].name if vols and rng.random() < 0.3 else f"VOL {pi}{vi}"
            vols.append(Volume(vname, files, s3000=rng.random() < 0.5, dir_mode=rng.choice(["chain", "chain", "run"]), dir_sectors=rng.choice([1, 1, 2]),
                               stale=rng.choice([0, 0, 1, 3])))
        need = HEADER_SECTORS + 4 + sum(v.dir_sectors + 2 + sum(nsectors(len(f.content())) for f in v.files) for v in vols)
        # the volume table may have holes (deleted volumes) and need not start at slot 0
        slots = sorted(rng.sample(range(rng.choice([len(vols) + 2, 12, VOL_ENTRIES])), len(vols))) if vols and rng.random() < 0.5 else None
        parts.append(Partition(vols, sectors=need + rng.randint(2, 12), slots=slots))
    return Disc(parts)
