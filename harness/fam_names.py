"""Names family (layer L4): real structural.Image naming routines vs the Lean model; shared by C05, C06, C10."""
from __future__ import annotations

import io
import itertools
from typing import List, Sequence, Tuple

import impl
from common import hx


def hxs(s: str) -> str:
    return hx(s.encode("latin-1"))


_IMG = None
_AKAI = None


def image():
    """an Image instance without running any parser (the naming methods only use class attributes)."""
    global _IMG, _AKAI
    if _IMG is None:
        from smpl_extract.akai.image import AkaiImageParser
        from smpl_extract.structural import Image

        class _Plain(Image):
            name = "x"
            type_name = "x"

        _IMG = object.__new__(_Plain)
        _AKAI = object.__new__(AkaiImageParser)
    return _IMG


def akai_image():
    image()
    return _AKAI


class Stub:
    """minimal Element stand-in for sanitize_names_general."""

    def __init__(self, name, is_file):
        from smpl_extract.base import ElementTypes

        self.name = name
        self.type_id = ElementTypes.SampleEntry if is_file else ElementTypes.DirectoryEntry
        self._safe_name = None
        self._export_name = None


def safe(name: str) -> str:
    return image().make_safe_name(name)


def export(name: str, is_file: bool) -> str:
    return image().make_export_name(name, is_file)


def dedupe_real(kind: str, items: Sequence[Tuple[str, bool]]):
    img = image()
    els = [Stub(n, f) for n, f in items]
    try:
        if kind == "safe":
            img.make_safe_names_routine(els)
            return [e._safe_name for e in els]
        img.make_export_names_routine(els)
        return [e._export_name for e in els]
    except Exception as e:
        return "err " + impl.exc_name(e)


def dedupe_str(kind, items) -> str:
    r = dedupe_real(kind, items)
    if isinstance(r, str):
        return r
    return "ok " + " ".join(hxs(x) for x in r)


def combine_real(names: Sequence[str]):
    """run combine_stereo_routine on mono Samples with the given export names; returns groups."""
    from smpl_extract.data_streams import DataStream, StreamEncoding
    from smpl_extract.generalized.sample import Sample

    samples = []
    for i, n in enumerate(names):
        s = Sample(name=n, data_streams=[DataStream(io.BytesIO(bytes([i])), StreamEncoding(sample_width=2))], _export_name=n)
        s._idx = i
        samples.append(s)
    out = image().combine_stereo_routine(samples)
    groups = []
    for s in out:
        if len(s.data_streams) == 1:
            idx = s.data_streams[0].stream.getvalue()[0]
            groups.append(("m", idx))
        else:
            l = s.data_streams[0].stream.getvalue()[0]
            r = s.data_streams[1].stream.getvalue()[0]
            groups.append(("p", l, r, s.export_name))
    return groups


def combine_str(names) -> str:
    parts = []
    for g in combine_real(names):
        parts.append(f"m:{g[1]}" if g[0] == "m" else f"p:{g[1]}:{g[2]}:{hxs(g[3])}")
    return " ".join(parts)


def stereo_real(name: str) -> str:
    img = image()
    if hasattr(img, "_split_stereo_name"):  # D21: the expression was replaced by a one-pass splitter
        g = img._split_stereo_name(name)
    else:
        m = img._STEREO_FILENAME.match(name)
        g = m.groups() if m else None
    if not g:
        return "none"
    return f"{hxs(g[0])} {hxs(g[1])} {g[2]}"


def tokens_real(akai: bool, path: str) -> str:
    """the token list parse_path walks, after the image's token normalisation."""
    img = akai_image() if akai else image()
    raw = img._TOKENIZE_PATH_REGEX.split(path.strip())
    toks = raw[0::2]
    if len(toks) > 0 and len(toks[-1]) < 1:
        toks = toks[:-1]
    return " ".join(hxs(img._sanitize_string(t)) for t in toks)


# ------------------------------------------------------------------ generators

SMALL_ALPHA = ["A", "b", "_", " ", "-", ".", ":", "/", "\\", '"', "(", ")", "#", "\x01", "L", "R", "1", "+"]
AKAI_ALPHA = list("0123456789 ABCDEFGHIJKLMNOPQRSTUVWXYZ#+-.")

NEAR_POOL = [
    "A", "A L", "A R", "A -L", "A -R", "A  L", "A  R", "A-L", "A-R", "A (2)", "A (2) L", "A (3)", "B L", "B R", "A.", "A/", "a", "A:", " A", "A - L",
]


def all_strings(alpha, maxlen):
    for n in range(0, maxlen + 1):
        for t in itertools.product(alpha, repeat=n):
            yield "".join(t)


def random_name(rng, style=None) -> str:
    style = style or rng.choice(["akai", "ascii", "near", "nasty"])
    if style == "akai":
        return "".join(rng.choice(AKAI_ALPHA) for _ in range(rng.randint(0, 12)))
    if style == "near":
        return rng.choice(NEAR_POOL)
    if style == "nasty":
        return "".join(rng.choice(SMALL_ALPHA + ["..", "../", "'", "`", "\t", "\n", "\x7f", "\x1c"]) for _ in range(rng.randint(0, 8)))
    return "".join(chr(rng.randint(1, 126)) for _ in range(rng.randint(0, 10)))
