#!/bin/bash
# Run every registered check once (sequentially), e.g.  harness/run_all.sh 5 thorough /tmp/out
# Do not apply patches to /repo or rebuild lean/ while this runs.
cd "$(dirname "$0")/.." || exit 2
seed=${1:-0}
tier=${2:-quick}
out=${3:-/tmp/verif_all}
mkdir -p "$out"
: > "$out/summary.log"
for p in C01 C02 C03 C04 C05 C06 C07 C08 C09 C10 C11 C12 C13 C14 C15 C16 C17 C18 C19 C20; do
  s=$(date +%s)
  VERIF_SEED=$seed timeout 7200 /venv/bin/python harness/check.py --property $p --tier $tier > "$out/$p.log" 2>&1
  rc=$?
  echo "$p rc=$rc $(( $(date +%s) - s ))s violations=$(grep -c '^VIOLATION' "$out/$p.log") known=$(grep -c '^KNOWN-FINDING' "$out/$p.log") | $(grep 'seed=' "$out/$p.log" | tail -1 | cut -c1-160)" >> "$out/summary.log"
done
echo DONE >> "$out/summary.log"
