"""Shared plumbing for the smpl_extract verification harness.

Run with /venv/bin/python (has construct, numpy and the editable install of /repo).
"""
from __future__ import annotations

import fcntl
import json
import os
import random
import re
import subprocess
import sys
import time
from dataclasses import dataclass, field
from pathlib import Path
from typing import Any, Callable, Dict, Iterable, List, Optional, Sequence, Tuple

VERIF = Path(__file__).resolve().parent.parent
LEAN = VERIF / "lean"
REPO = Path(os.environ.get("SMPL_REPO", "/repo"))
EVIDENCE = VERIF / "evidence"
REPLAYS = VERIF / "replays"
CORPUS = VERIF / "corpus"
DRIVER = LEAN / ".lake" / "build" / "bin" / "driver"
ALLOWED_AXIOMS = {"propext", "Classical.choice", "Quot.sound"}
FORBIDDEN = re.compile(
    r"\bsorry\b|\badmit\b|^\s*axiom\s|native_decide|bv_decide|implemented_by|\bunsafe\s|maxHeartbeats\s+0\b",
    re.M,
)

TRUSTED_BASE = [
    "Lean 4.33.0 kernel (axioms allowed: propext, Classical.choice, Quot.sound; no native_decide/bv_decide/sorry)",
    "statements in lean/Smpl/Props and specifications in lean/Smpl/Spec",
    "harness/translate.py (regenerates lean/Smpl/Gen from /repo on every run)",
    "correspondence harness (harness/*.py, lean/Driver.lean, lean/Smpl/Drv/*): model vs real code on the same inputs",
    "CPython, numpy, construct, the OS (modelled, not verified)",
]


def ensure_repo_on_path() -> None:
    """Import smpl_extract from the repo under check and assert that it really is that tree."""
    sys.path.insert(0, str(REPO))
    import smpl_extract  # noqa

    p = Path(smpl_extract.__file__).resolve()
    if not str(p).startswith(str(REPO.resolve())):
        raise RuntimeError(f"smpl_extract imported from {p}, expected under {REPO}")


# ------------------------------------------------------------------ Lean side


class BuildLock:
    def __enter__(self):
        LEAN.mkdir(exist_ok=True)
        self.f = open(LEAN / ".build.lock", "w")
        fcntl.flock(self.f, fcntl.LOCK_EX)
        return self

    def __exit__(self, *a):
        fcntl.flock(self.f, fcntl.LOCK_UN)
        self.f.close()


def lake(args: Sequence[str], timeout: int = 3600) -> Tuple[int, str]:
    env = dict(os.environ)
    p = subprocess.run(
        ["lake", *args], cwd=LEAN, capture_output=True, text=True, timeout=timeout, env=env
    )
    return p.returncode, p.stdout + p.stderr


def lean_build(targets: Sequence[str]) -> Tuple[bool, str]:
    with BuildLock():
        rc, out = lake(["build", *targets])
    return rc == 0, out


def strip_lean_comments(src: str) -> str:
    # remove /- ... -/ (nested not handled beyond one level) and -- ... comments
    out = []
    i = 0
    depth = 0
    n = len(src)
    while i < n:
        if src.startswith("/-", i):
            depth += 1
            i += 2
            continue
        if depth > 0 and src.startswith("-/", i):
            depth -= 1
            i += 2
            continue
        if depth > 0:
            i += 1
            continue
        if src.startswith("--", i):
            j = src.find("\n", i)
            i = n if j < 0 else j
            continue
        out.append(src[i])
        i += 1
    return "".join(out)


def grep_forbidden() -> List[str]:
    hits = []
    for p in list((LEAN / "Smpl").rglob("*.lean")) + [LEAN / "Driver.lean"]:
        if "/Audit/" in str(p):
            continue
        txt = strip_lean_comments(p.read_text())
        # string literals could contain the words; models do not use them
        for m in FORBIDDEN.finditer(txt):
            hits.append(f"{p.relative_to(LEAN)}: {m.group(0).strip()}")
    return hits


def load_obligations() -> Dict[str, List[str]]:
    return json.loads((LEAN / "obligations.json").read_text())


def prop_modules(prop: str) -> List[str]:
    """the Lean modules that hold the obligations of `prop` (default: Smpl.Props.<prop>)."""
    f = LEAN / "prop_modules.json"
    table = json.loads(f.read_text()) if f.exists() else {}
    return table.get(prop, [f"Smpl.Props.{prop}"])


def audit(prop: str) -> Dict[str, Any]:
    """`#print axioms` for every theorem named in obligations.json for `prop`."""
    names = load_obligations().get(prop, [])
    src = [f"import {m}" for m in prop_modules(prop)]
    for n in names:
        src.append(f"#print axioms {n}")
    audit_dir = LEAN / "Smpl" / "Audit"
    audit_dir.mkdir(exist_ok=True)
    f = audit_dir / f"{prop}.lean"
    f.write_text("\n".join(src) + "\n")
    with BuildLock():
        rc, out = lake(["env", "lean", str(f.relative_to(LEAN))])
    res: Dict[str, Any] = {"names": names, "ok": {}, "axioms": {}, "raw_rc": rc}
    for n in names:
        short = n
        m = re.search(
            r"'" + re.escape(short) + r"' depends on axioms: \[([^\]]*)\]", out.replace("\n", " ")
        )
        m2 = re.search(r"'" + re.escape(short) + r"' does not depend on any axioms", out)
        if m:
            ax = [a.strip() for a in m.group(1).split(",") if a.strip()]
            res["axioms"][n] = ax
            res["ok"][n] = all(a in ALLOWED_AXIOMS for a in ax)
        elif m2:
            res["axioms"][n] = []
            res["ok"][n] = True
        else:
            res["axioms"][n] = None
            res["ok"][n] = False
    res["log"] = out[-4000:]
    return res


def run_driver(lines: Sequence[str], timeout: int = 1800) -> List[str]:
    """Feed op lines to the compiled Lean driver; one output line per input line."""
    if not DRIVER.exists():
        raise RuntimeError("driver not built")
    data = ("\n".join(lines) + "\n").encode()
    p = None
    for attempt in range(6):
        # the binary may be in the middle of being relinked by a concurrent check of another property
        try:
            p = subprocess.run([str(DRIVER)], input=data, capture_output=True, timeout=timeout)
        except OSError:
            p = None
        if p is not None and p.returncode == 0:
            break
        import time as _t

        _t.sleep(3)
    if p is None or p.returncode != 0:
        raise RuntimeError(f"driver failed rc={None if p is None else p.returncode}: {b'' if p is None else p.stderr[-2000:]!r}")
    out = p.stdout.decode().split("\n")
    if out and out[-1] == "":
        out.pop()
    if len(out) != len(lines):
        raise RuntimeError(f"driver returned {len(out)} lines for {len(lines)} ops")
    return out


def hx(b: bytes) -> str:
    return b.hex() if len(b) else "-"


def unhx(s: str) -> bytes:
    return b"" if s == "-" else bytes.fromhex(s)


# ------------------------------------------------------------------ results


@dataclass
class Case:
    """One correspondence case: the op line sent to the model and what the implementation did."""

    op: str
    impl: str
    meta: Any = None  # generator parameters (for replay / shrinking)


@dataclass
class Finding:
    """A concrete input on which the property fails on the real code."""

    klass: str  # classification used to match known findings
    detail: Dict[str, Any]


@dataclass
class Report:
    prop: str
    evaluations: int = 0
    nontrivial: set = field(default_factory=set)
    rule: str = ""
    samples: List[Any] = field(default_factory=list)
    features: Dict[str, int] = field(default_factory=dict)
    disagreements: List[Dict[str, Any]] = field(default_factory=list)
    findings: List[Finding] = field(default_factory=list)
    exhaustive: bool = False
    families: Dict[str, Dict[str, Any]] = field(default_factory=dict)
    required_features: List[str] = field(default_factory=list)

    def feat(self, k: str, n: int = 1) -> None:
        self.features[k] = self.features.get(k, 0) + n

    def sample(self, s: Any, cap: int = 6) -> None:
        if len(self.samples) < cap:
            self.samples.append(s)


def compare_family(
    rep: Report,
    family: str,
    cases: Sequence[Case],
    nontrivial: Optional[Callable[[Case], bool]] = None,
    exhaustive: bool = False,
    canon: Optional[Callable[[str], str]] = None,
    eq: Optional[Callable[[str, str], bool]] = None,
) -> None:
    """Run the model on every case's op line and diff with the implementation's result."""
    t0 = time.time()
    outs = run_driver([c.op for c in cases]) if cases else []
    bad = 0
    for c, o in zip(cases, outs):
        rep.evaluations += 1
        if canon:
            o = canon(o)
        if nontrivial is None or nontrivial(c):
            rep.nontrivial.add(c.op)
        same = eq(o, c.impl) if eq else (o == c.impl)
        if not same:
            bad += 1
            if len(rep.disagreements) < 50:
                rep.disagreements.append(
                    {"family": family, "op": c.op[:2000], "model": o[:2000], "impl": c.impl[:2000], "meta": c.meta}
                )
    rep.families[family] = {
        "cases": len(cases),
        "disagreements": bad,
        "exhaustive": exhaustive,
        "wall_s": round(time.time() - t0, 2),
    }
    if cases:
        c = cases[len(cases) // 2]
        rep.sample({"family": family, "op": c.op[:300], "result": c.impl[:300]})


def exc_class(e: BaseException) -> str:
    """Map implementation exceptions to the small enum shared with the model."""
    n = type(e).__name__
    mro = [k.__name__ for k in type(e).__mro__]
    if "ConstructError" in mro:
        return "ConstructError"
    return n
