"""Independent writer of AKAI S1000/S3000 program files (header + linked keygroups) and the values
`ls` must show for them (property C20). The layout below is the S1000 format as frozen at the
pinned tree (it coincides with the published S1000 SysEx program/keygroup layout); the oracle
never imports the package's struct definitions."""
from __future__ import annotations

import struct
from dataclasses import dataclass, field
from typing import Dict, List, Optional

from gen_akai import akai_name

# (name, offset, kind); kinds: u8 s8 name bool note cents enum:<a|b|..> midich aux map:<k=v,..;default> temper
HEADER = [
    ("program_id", 0, "u8"), ("program_name", 3, "name"), ("midi_program_number", 15, "u8"), ("midi_channel", 16, "midich"),
    ("polyphony", 17, "u8"), ("priority", 18, "enum:Low|Normal|High|Hold"), ("low_key", 19, "note"), ("high_key", 20, "note"),
    ("octave_shift", 21, "s8"), ("aux_output_select", 22, "aux"), ("mix_output_level", 23, "u8"), ("mix_output_pan", 24, "s8"),
    ("volume", 25, "u8"), ("vel_to_volume", 26, "s8"), ("key_to_volume", 27, "s8"), ("pres_to_volume", 28, "s8"),
    ("pan_lfo_rate", 29, "u8"), ("pan_lfo_depth", 30, "u8"), ("pan_lfo_delay", 31, "u8"), ("key_to_pan", 32, "s8"),
    ("lfo_rate", 33, "u8"), ("lfo_depth", 34, "u8"), ("lfo_delay", 35, "u8"), ("mod_to_lfo_depth", 36, "u8"),
    ("pres_to_lfo_depth", 37, "u8"), ("vel_to_lfo_depth", 38, "u8"), ("bend_to_pitch", 39, "u8"), ("pres_to_pitch", 40, "s8"),
    ("keygroup_crossfade", 41, "bool"), ("number_of_keygroups", 42, "u8"), ("key_temperaments", 44, "temper"),
    ("fx_output", 56, "bool"), ("mod_to_pan", 57, "s8"), ("stereo_coherence", 58, "bool"), ("lfo_desync", 59, "bool"),
    ("pitch_law", 60, "u8"), ("voice_reassign", 61, "enum:Oldest|Quietiest"), ("softped_to_volume", 62, "u8"),
    ("softped_to_attack", 63, "u8"), ("softped_to_filter", 64, "u8"), ("tune_cents", 65, "cents"), ("tune_semitones", 66, "s8"),
    ("key_to_lfo_rate", 67, "s8"), ("key_to_lfo_depth", 68, "s8"), ("key_to_lfo_delay", 69, "s8"),
    ("voice_output_scale_db", 70, "map:0=-6,1=0,2=12;0"), ("stereo_output_scale_db", 71, "map:0=0,1=6;0"),
]
HEADER_SIZE = 72

KEYGROUP = [
    ("block_id", 0, "u8"), ("low_key", 3, "note"), ("high_key", 4, "note"), ("tune_cents", 5, "cents"), ("tune_semitones", 6, "s8"),
    ("filter_cutoff", 7, "u8"), ("key_to_filter_cutoff", 8, "u8"), ("velocity_to_filter_cutoff", 9, "s8"),
    ("pressure_to_filter_cutoff", 10, "s8"), ("env2_to_filter_cutoff", 11, "s8"),
    ("env1_attack", 12, "u8"), ("env1_decay", 13, "u8"), ("env1_sustain", 14, "u8"), ("env1_release", 15, "u8"),
    ("env1_velocity_to_attack", 16, "s8"), ("env1_velocity_to_release", 17, "s8"), ("env1_off_velocity_to_release", 18, "s8"),
    ("env1_key_to_decay_and_release", 19, "s8"),
    ("env2_attack", 20, "u8"), ("env2_decay", 21, "u8"), ("env2_sustain", 22, "u8"), ("env2_release", 23, "u8"),
    ("env2_velocity_to_attack", 24, "s8"), ("env2_velocity_to_release", 25, "s8"), ("env2_off_velocity_to_release", 26, "s8"),
    ("env2_key_to_decay_and_release", 27, "s8"), ("velocity_to_env2_to_filter_cutoff", 28, "s8"), ("env2_to_pitch", 29, "s8"),
    ("velocity_zone_crossfade", 30, "bool"), ("beat_detune", 130, "s8"), ("hold_attack_until_loop", 131, "bool"),
    ("velocity_to_volume_offset", 148, "s8"),
]
KEYGROUP_SIZE = 150
ZONES_AT = 34
ZONE_SIZE = 24
ZONE = [
    ("sample_name", 0, "name"), ("low_velocity", 12, "u8"), ("high_velocity", 13, "u8"), ("tune_cents", 14, "cents"),
    ("tune_semitones", 15, "s8"), ("loudness_offset", 16, "s8"), ("filter_cutoff_offset", 17, "s8"), ("pan_offset", 18, "s8"),
    ("loop_mode", 19, "enum:Loop as sample|Loop in release|Loop until release|No loop|Play until end"),
]
# per-slot arrays after the zones
KEYTRACK_AT, AUXOUT_AT, VSS_AT = 132, 136, 140

NOTE_NAMES = ["A", "A#", "B", "C", "C#", "D", "D#", "E", "F", "F#", "G", "G#"]


def note_str_akai(b: int) -> str:
    """AKAI note byte: 21 = A0; the octave number changes at A (A0 .. G#0, A1 ..): 24 = C0, 60 = C3."""
    rel = b - 21
    return f"{NOTE_NAMES[rel % 12]}{rel // 12}"


def random_field(rng, kind: str):
    if kind == "u8":
        return rng.randrange(256)
    if kind == "s8":
        return rng.randrange(-128, 128)
    if kind == "bool":
        return rng.randrange(2)
    if kind == "note":
        return rng.randrange(24, 128)
    if kind == "cents":
        return rng.randrange(-128, 128)
    if kind.startswith("enum:"):
        return rng.randrange(len(kind[5:].split("|")))
    if kind in ("midich", "aux"):
        return rng.choice([0xFF, rng.randrange(255)])
    if kind.startswith("map:"):
        return rng.randrange(len(kind[4:].split(";")[0].split(",")))
    if kind == "temper":
        return [rng.randrange(256) for _ in range(12)]
    raise ValueError(kind)


def put_field(buf: bytearray, off: int, kind: str, v):
    if kind == "name":
        buf[off:off + 12] = akai_name(v)
    elif kind == "temper":
        buf[off:off + 12] = bytes(v)
    elif kind in ("s8", "cents"):
        buf[off] = v & 0xFF
    else:
        buf[off] = v & 0xFF


def shown(kind: str, v) -> str:
    """the text `ls` must print for a stored value (cents: canonical `cents#<byte>` form of fam_akai.canon_ls)."""
    if kind in ("u8", "s8"):
        return str(v)
    if kind == "name":
        return v
    if kind == "bool":
        return "True" if v else "False"
    if kind == "note":
        return note_str_akai(v)
    if kind == "cents":
        return f"cents#{v}"
    if kind.startswith("enum:"):
        return kind[5:].split("|")[v]
    if kind in ("midich",):
        return "Omni" if v == 0xFF else str(v)
    if kind == "aux":
        return "Off" if v == 0xFF else str(v)
    if kind.startswith("map:"):
        pairs = dict(p.split("=") for p in kind[4:].split(";")[0].split(","))
        return pairs.get(str(v), kind.split(";")[1])
    raise ValueError(kind)


PROG_NAMES = ["GRAND", "STRINGS 1", "BASS+LEAD", "DRUMS.A", "PAD-2"]
SAMPLE_NAMES = ["KICK", "SNARE", "PNO C3", "PNO C4-L", "STR LO", "HAT#1", "FX.1", "A"]


@dataclass
class Program:
    name: str
    header: Dict[str, object]
    keygroups: List[dict]          # each: fields dict + "zones": [dict|None]*4 + "keytrack": [4], "auxout": [4], "vss": [4]
    first_addr: int = 150
    addrs: Optional[List[int]] = None   # absolute address of each keygroup
    linked: bool = True                 # next-addresses stored (False: zero => sequential)
    s3000: bool = False
    kind: str = "program"

    @property
    def ftype(self) -> int:
        return 0xF0 if self.s3000 else 0x70

    def content(self) -> bytes:
        n = len(self.keygroups)
        addrs = self.addrs or [self.first_addr + KEYGROUP_SIZE * i for i in range(n)]
        size = max([HEADER_SIZE] + [a + KEYGROUP_SIZE for a in addrs])
        buf = bytearray(b"\x5a" * size)  # filler between structures is not a valid default of anything
        hdr = bytearray(HEADER_SIZE)
        for name, off, kind in HEADER:
            put_field(hdr, off, kind, self.header[name])
        hdr[1:3] = struct.pack("<H", addrs[0] if n else self.first_addr)
        hdr[42] = n
        hdr[43] = 0
        buf[0:HEADER_SIZE] = hdr
        for i, kg in enumerate(self.keygroups):
            b = bytearray(KEYGROUP_SIZE)
            for name, off, kind in KEYGROUP:
                put_field(b, off, kind, kg[name])
            nxt = addrs[i + 1] if (self.linked and i + 1 < n) else (0 if not self.linked else kg.get("_last_next", 0))
            b[1:3] = struct.pack("<H", nxt)
            b[31] = 4
            b[32:34] = b"\xff\xff"
            for z in range(4):
                zb = bytearray(ZONE_SIZE)
                zone = kg["zones"][z]
                if zone is None:
                    zb[0:12] = akai_name("")
                    zb[12], zb[13] = 0, 127
                else:
                    for name, off, kind in ZONE:
                        put_field(zb, off, kind, zone[name])
                zb[20:22] = b"\xff\xff"
                zb[22], zb[23] = 0x2C, 0x01
                b[ZONES_AT + ZONE_SIZE * z: ZONES_AT + ZONE_SIZE * (z + 1)] = zb
                b[KEYTRACK_AT + z] = kg["keytrack"][z]
                b[AUXOUT_AT + z] = kg["auxout"][z]
                b[VSS_AT + 2 * z: VSS_AT + 2 * z + 2] = struct.pack("<h", kg["vss"][z])
            buf[addrs[i]: addrs[i] + KEYGROUP_SIZE] = b
        return bytes(buf)

    def expected(self) -> Dict[str, str]:
        """flat key -> printed value, keys as the tree nests them: header fields, `keygroups/<i>/<field>`,
        `keygroups/<i>/velocity_zones/<j>/<field>` for the non-empty zones in stored order."""
        exp = {}
        for name, off, kind in HEADER:
            if kind == "temper":
                for k, v in enumerate(self.header[name]):
                    exp[f"{name}/{k}"] = str(v)
            else:
                exp[name] = shown(kind, self.header[name] if name != "number_of_keygroups" else len(self.keygroups))
        exp["program_name"] = self.name
        for i, kg in enumerate(self.keygroups):
            for name, off, kind in KEYGROUP:
                exp[f"keygroups/{i}/{name}"] = shown(kind, kg[name])
            active = [z for z in range(4) if kg["zones"][z] is not None]
            for j, z in enumerate(active):
                for name, off, kind in ZONE:
                    exp[f"keygroups/{i}/velocity_zones/{j}/{name}"] = shown(kind, kg["zones"][z][name])
            exp[f"keygroups/{i}/#zones"] = str(len(active))
            # per-zone extras are attributed by position among the active zones (slot j of the arrays)
            if active == list(range(len(active))):
                for j in range(len(active)):
                    exp[f"keygroups/{i}/velocity_zones/{j}/enable_key_tracking"] = "True" if kg["keytrack"][j] else "False"
                    exp[f"keygroups/{i}/velocity_zones/{j}/aux_out_offset"] = str(kg["auxout"][j])
                    exp[f"keygroups/{i}/velocity_zones/{j}/velocity_to_sample_start"] = str(kg["vss"][j])
        exp["#keygroups"] = str(len(self.keygroups))
        return exp


def random_program(rng, name: Optional[str] = None, nkg: Optional[int] = None, layout: Optional[str] = None) -> Program:
    name = name or rng.choice(PROG_NAMES)
    header = {}
    for fname, off, kind in HEADER:
        header[fname] = name if kind == "name" else random_field(rng, kind)
    header["program_id"] = 1
    n = rng.choice([1, 1, 2, 3, 5]) if nkg is None else nkg
    kgs = []
    for i in range(n):
        kg = {f: random_field(rng, k) for f, off, k in KEYGROUP}
        kg["block_id"] = 2
        zones = []
        nact = rng.choice([0, 1, 1, 2, 3, 4])
        slots = sorted(rng.sample(range(4), nact)) if rng.random() < 0.3 else list(range(nact))
        for z in range(4):
            if z in slots:
                zone = {f: (rng.choice(SAMPLE_NAMES) if k == "name" else random_field(rng, k)) for f, off, k in ZONE}
                zones.append(zone)
            else:
                zones.append(None)
        kg["zones"] = zones
        kg["keytrack"] = [rng.randrange(2) for _ in range(4)]
        kg["auxout"] = [rng.randrange(256) for _ in range(4)]
        kg["vss"] = [rng.randrange(-9999, 10000) for _ in range(4)]
        kgs.append(kg)
    mode = layout or rng.choice(["standard", "standard", "gaps", "shuffled", "sequential", "backward", "zigzag"])
    prog = Program(name, header, kgs, s3000=rng.random() < 0.3)
    if mode == "gaps":
        a, addrs = rng.choice([72, 100, 150, 192]), []
        for i in range(n):
            addrs.append(a)
            a += KEYGROUP_SIZE + rng.choice([0, 1, 7, 42])
        prog.addrs = addrs
    elif mode == "shuffled":
        slots = [150 + 160 * i for i in range(n)]
        rng.shuffle(slots)
        prog.addrs = slots
    elif mode == "backward":
        # every link points backwards (S55): the chain runs from the end of the file to its start
        a0 = rng.choice([72, 150, 170])
        step = KEYGROUP_SIZE + rng.choice([0, 0, 10, 60])
        prog.addrs = [a0 + step * (n - 1 - i) for i in range(n)]
    elif mode == "zigzag":
        # forward and backward links alternate; a keygroup may directly follow its successor
        a0, step = rng.choice([100, 150]), KEYGROUP_SIZE + rng.choice([0, 20])
        slots = [a0 + step * i for i in range(n)]
        order = []
        lo, hi = 0, n - 1
        while lo <= hi:
            order.append(slots[lo]); lo += 1
            if lo <= hi:
                order.append(slots[hi]); hi -= 1
        prog.addrs = order
    elif mode == "sequential":
        prog.linked = False
        prog.addrs = [150 + KEYGROUP_SIZE * i for i in range(n)]
    if n:
        kgs[-1]["_last_next"] = rng.choice([0, 0, 150 * (n + 1), 0xFFFF])
    return prog
