"""Known findings (committed file /verif/known_findings.json; never written at run time)."""
from __future__ import annotations

import json
from typing import Any, Dict, List, Optional

from common import VERIF, Finding


def load() -> List[Dict[str, Any]]:
    p = VERIF / "known_findings.json"
    if not p.exists():
        return []
    data = json.loads(p.read_text())
    return data.get("findings", [])


def match(known: List[Dict[str, Any]], prop: str, f: Finding) -> Optional[Dict[str, Any]]:
    """An *open* entry matches when property and failure class agree.  `fixed` entries suppress nothing."""
    for e in known:
        if e.get("status") != "open":
            continue
        klass = e.get("class")
        if e.get("property") == prop and (klass == f.klass or (isinstance(klass, list) and f.klass in klass)):
            return e
    return None
