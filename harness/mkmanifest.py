#!/venv/bin/python
"""Writes /verif/MANIFEST.json from the table below (kept in one place so it stays valid)."""
import json
from pathlib import Path

VERIF = Path(__file__).resolve().parent.parent
ALL = [f"C{i:02d}" for i in range(1, 21)]

NOTE_COMMON = (
    "Trusted: Lean 4.33 kernel with axioms {propext, Classical.choice, Quot.sound} only (audited by #print axioms on every run; "
    "no sorry/native_decide/bv_decide); the statements in lean/Smpl/Props and specs in lean/Smpl/Spec; harness/translate.py; "
    "the correspondence harness (model driver vs real code); CPython/numpy/construct/OS are modelled, not verified."
)

CHECKS = {
    "C01": dict(
        technique="Lean 4 proof of the layers the export is composed of (chain walk C07, sector-chained reads C08, WAV assembly C04, transcoder C12) + a Lean model of the whole AKAI parser/exporter tied end-to-end to the real tool on images from an independent writer",
        text=(
            "The AKAI pipeline is modelled in full in Lean (partition scan, volume table, SAT decode, chain walk, file table, sample header, data window, naming, pairing, transcoder, RIFF assembly: lean/Smpl/Model/Akai*.lean) and that model is the one the driver runs. "
            "Proved, for all inputs: get_path resolves any well-formed chain in any order (C07_getPath_wf); a FileStream over any chain order reads exactly the concatenation of its sectors for any position/size, incl. reads ending exactly on a sector boundary (mkChain_isFile, readPieces_spec); "
            "the parser's segment content is that logical content (C01_segment_eq); WAV structure (C04), byte-order routing (C12). Composition on the model: C01_realize_sample (on a complete partition a sample entry whose chain resolves to `path` is realised with exactly the bytes [140+2*start, 140+2*end) of the chain's sectors in chain order cut to the entry size), via C01_prefix_is_segment / C01_holey_is_segment / C01_file_audio; C07_akai_path_follows_sat (the resolved chain follows the SAT); struct layouts of partition header, volume entry, file entry, loop entry, sample header regenerated from /repo and compared with frozen tables (Props/Layouts). From the raw image: C01_sample_from_image — if the partition at byte pos parses, and the RAW segment allocation table of its header holds a file chain c (each word names the next sector, the last is 0xC000) starting at the entry's start sector and lying inside the partition, then the entry is realised as the sample with exactly the bytes [140+2*start, 140+2*end) of c's sectors in chain order cut to the entry's size, whatever else the table holds (parsePartition_links + C07_akai_wf + C01_realize_sample). The writer's side: C01_header_roundtrip — a 140-byte sample header written field by field (HdrImg.bytes: type, root note, 12 name codes, loop mode, tuning bytes, word count, start/end markers, eight loop entries, rate; every other byte arbitrary) parses back to exactly the values written, whatever follows it; C01_written_sample composes it with the above: a file whose chain content is such a header followed by `data` is realised with those header values and the audio data[2*start, 2*end), for every sector order. fileTable_written / C01_written_volume — a volume directory written as n well-formed 24-byte entries followed by a slot carrying the end marker 0xD747 parses to exactly those entries, whatever follows and whatever the unspecified bytes hold, and the volume whose directory chain holds such a table is realised with exactly those entries, each through realizeFile. C01_written_partition — a partition written as size, two zero bytes, the 194 magic bytes, two free bytes, 2F 00, one hundred 16-byte volume slots, the 11386 table words and a body filling the declared size, placed anywhere in a file, parses to exactly the written volume slots and the decoded table, its window being the written bytes, the scan continuing right after it (parseVolEntries_written, words16_encWords). C01_written_disc / C01_written_tree — a file that is a sequence of written partitions is scanned into exactly those partitions, lettered consecutively, and the tree the tool builds from it is the tree of those partitions (volumes through C01_written_volume, sample files through C01_written_sample). The tool's side, on the tree (Props/C01E): C01_export_volume — a volume realised without error whose sample files carry clean (word characters and inner blanks), pairwise distinct names that are no pair halves is exported as exactly one file per sample, in directory order, at <dir>/<stored name>.wav (C06_clean_names_kept for the names, combine_no_stereo for the pairing loop); C01_export_mono_wav — each such file is the RIFF header buildWav computes followed by exactly the whole 16-bit frames of the sample's data window, in order (through make_transcoder: C12_single, the tool's 4096-byte blocks); C01_export_tree — for a tree all of whose volumes are of that kind and whose volume names are clean and pairwise distinct per partition, export writes partition by partition, volume by volume, file by file exactly those WAVs at <partition folder>/<volume>/<name>.wav and nothing else (the partition folder names are whatever the naming assigns to `A:`, `B:` ...: a premise). NOT yet closed: the last composition exportAll(written disc bytes) = that list as ONE statement (C01_written_tree gives the tree, C01_export_tree the files; the written volumes' nodes have to be put into the `sampleNode` form), and volumes with pairs or names that need sanitising (C05 / C06 theorems apply separately). "
            "Tie: logical discs -> independent Python writer -> real `export` and `ls` at every node vs the Lean model byte-for-byte (hash of every exported file), with head-not-lowest chains, exact-fill files (k*8192-140), empty windows, rate 0, directory runs; oracle computed from the logical model. "
            "Found and repaired through this check: D1, D2, empty-window export (fix 170824f)."
        ),
        design_ref="DESIGN.md §4 C01",
    ),
    "C03": dict(
        technique="Lean 4 proof (induction over the pairwise track walk; passthrough transcoder lemma by induction on blocks) + end-to-end export correspondence",
        text=(
            "Machine-checked: for any number of audio tracks that all carry an INDEX line, any index values and any bin length, the walk of from_bin_cue yields exactly one window per track from (60m+s)*75+f sectors of 2352 bytes "
            "to the next track's first index, the last to the end of the file (C03_walk/C03_windows); the windows tile the bin with no gap and no overlap (C03_tiling); with increasing indices inner windows are positive multiples of 2352 (C03_sizes); "
            "and a CDDA track is transcoded to exactly the whole 4-byte frames of its window for EVERY internal block size and either host byte order (passLoop_flatten, C03_track_pcm). The window-to-bytes step is C08 (StreamOffset). "
            "Tie: real end-to-end `export` of generated bin/cue pairs (1-8 tracks, tails 1,3,4,2351,2352,2353,random) compared with the bin slices, and model windows vs real windows incl. index-less tracks, data tracks, equal indices."
        ),
        design_ref="DESIGN.md §4 C03",
    ),
    "C04": dict(
        technique="Lean 4 proof (the builder's output is accepted by an independent reading validator, by reader/writer lemmas) + byte-for-byte correspondence with the real WavSampleBuilder and exhaustive sweeps of the float-derived smpl fields",
        text=(
            "Machine-checked: C04_wellformed — for every header value for which building succeeds (every integer field is range-checked as struct.pack does), every 16-bit file whose data is a whole number of frames is accepted by an independent validator "
            "(Spec/Riff.lean, written as a *reader*): RIFF size = len-8, 16-byte PCM fmt, optional smpl of size 36+24*loops (C04_smpl_size), data last, sizes adding up exactly, block align = channels*2, byte rate = rate*block align. "
            "Frame alignment of the data is C12_tail/passLoop_flatten. The float-derived fields (round(1e9/rate), normalised pitch) are modelled with IEEE doubles and tied exhaustively: rate 1..65535 and all 256x256 (semitone, tuning) byte pairs (quick: 1/16 lattices). "
            "Random generalized Samples (mono, split and interleaved stereo, 0-8 loops) are built by the real WavSampleBuilder and compared byte-for-byte with the model; every real file is also fed to the Lean validator, a Python restatement and stdlib wave."
        ),
        design_ref="DESIGN.md §4 C04",
    ),
    "C05": dict(
        technique="Lean 4 proof (shape of a recognised stereo name; partition and channel-order theorems for the pairing loop) + exhaustive correspondence of the pairing routine over near-collision lists",
        text=(
            "Machine-checked so far: C05_stereo_shape — a name is recognised by the pairing rule only if it is stem ++ non-empty run of blanks/hyphens ++ L|R ++ blanks, so two names are paired only when they differ in nothing but that letter. "
            "C05_partition — for distinct sibling names that end in their last non-blank character (export names are stripped) the indices of the written groups are a permutation of 0..n-1: no sample is lost or duplicated (invariant proof over the pairing loop, Lemmas/Stereo: stereoMatch_build/_alt, go_partition). C05_channels (Props/C05C) — in every pair the routine writes, the first stream (channel 0, by C12_pair_any) is the sample named `stem sep L` and the second (channel 1) the one named `stem sep R`, same stem and same non-empty separator run, whichever of the two comes first in the directory and whatever else it holds (invariant over the pairing loop; no premise on the names). Tie: the stereo regex on every string of length <= 4 over {A,L,R,' ','-','.','1'}; combine_stereo_routine on every list of <= 3 (thorough 4) distinct names from a 20-name near-collision pool in every order, "
            "random lists after the real export-name pass; oracle: every index exactly once, pairs exactly where names differ only in the final L/R, output names distinct, L in channel 0 through the real combine_stereo + WAV builder for both directory orders."
        ),
        design_ref="DESIGN.md §4 C05",
    ),
    "C06": dict(
        technique="Lean 4 proof (uniqueness of assigned names, character set, head and tail of every export name) + exhaustive correspondence of sanitising and de-duplication + end-to-end CDDA exports with hostile titles",
        text=(
            "Machine-checked so far: C06_export_head — every export name is non-empty and starts with a word character (so no component is empty, '.', '..', or starts with a separator). C06_unique (dedupe_nodup: whatever the candidate names — duplicates, names equal after sanitising, names colliding with a generated `(n)` — the assigned names are pairwise distinct, one per sibling; invariant proofs over groupBy / nextFree / assignGroup / the group loop in Lemmas/Dedupe), C06_charset (every character of an export name is a word character, blank, '-', '.' or '#'), C06_dir_tail (a directory component never ends in '.' or '-'). C06_clean_names_kept (Props/C06N) — a list of pairwise distinct clean names (word characters joined by single inner blanks, '-' or '#'; CleanName) is left exactly as it is by the whole naming pipeline: makeSafeName and makeExportName are the identity on clean names (makeSafeName_clean / makeExportName_clean, through safeReplace_ok / subRuns_ok / strip_clean) and the de-duplication is the identity on a duplicate-free list (dedupe_nodup_id) — this is the premise under which the end-to-end oracles of C01/C02/C10 predict '<volume>/<name>.wav'. C06_assigned_charset (Props/C06D) — whatever the stored names of the siblings, every name the de-duplication assigns to their export names consists only of word characters, blank, '-', '.', '#', '(' and ')': the counter's digits are digits (natChars_digits, from core's Nat.isDigit_of_mem_toDigits), adding a counter keeps a name inside the set (addCount_pathKeep), and the assignment loop only hands out candidates or candidates with a counter (dedupe_P, generic in the preserved property). NOT proved: confinement on disk (the oracle walks the destination after every end-to-end export). "
            "Tie: make_safe_name/make_export_name on every string of length <= 3 (thorough 4) over an 18-character alphabet with / \\ . : quotes ( ) # and a control character; sanitize_names_general on every sibling list of length <= 3 (thorough 4) from the near-collision pool, both passes; "
            "CDDA exports with '../x', separators, duplicate and blank titles checked on disk (inside destination, #files = #Exported lines, component rules). Found and repaired: D3, D4, D5."
        ),
        design_ref="DESIGN.md §4 C06",
    ),
    "C07": dict(
        technique="Lean 4 proof (induction over chains and fuel; the AKAI walk is defined by well-founded recursion with a checked termination measure) + exhaustive correspondence over all small raw tables",
        text=(
            "Machine-checked: get_path resolves every well-formed chain (any sector order) to exactly its sectors (C07_getPath_wf), whatever it returns is a chain of the table (C07_getPath_sound), and on EVERY table "
            "(cycles, self-links, cross-links, out-of-range links) it ends with a path of at most `size` sectors or one of two reported errors (C07_getPath_total, C07_getPath_cycle_reported); add_to_sector_links installs exactly "
            "the chain it is given (C07_addLinks_chain); the AKAI SAT walk terminates on every word table — Lean's termination checker accepted the lexicographic measure (2*#clean - [current clean], size - current), proof in Smpl.Alloc.akai_measure — and the "
            "Roland walk terminates by structural recursion on its loop guard. Decoder soundness: C07_roland_sound / C07_akai_sound — every entry of the decoded link table is an end mark or exactly the step the FAT / SAT word of that sector prescribes (a link word names the next sector, an AKAI directory-flag word continues with the following sector), on every table the decoder accepts; hence C07_roland_path_follows_fat / C07_akai_path_follows_sat: any chain get_path resolves over the decoded table follows the raw table. Decoder completeness for Roland: C07_roland_complete (Props/C07RP) — a chain that is well formed in the raw FAT (each word names the next cluster, the last is an end mark) and starts at an allocatable cluster is installed whole whenever the decoder accepts the table, so get_path from its head resolves exactly it — whatever else the table holds, also other words pointing at its head or into it (invariant: the chain is installed as soon as its head has been visited, and once the outer loop is past the head); C07_roland_wf is the earlier form with the extra premise that no word points at the head (invariants over the walk and the outer loop: rolandWalk_chain, addLinks_installs_path, LoopInv). Decoder completeness for AKAI: C07_akai_wf — for a table of at most 0xC000 entries (the real one has 11386), a file chain that is well formed in the raw SAT (each word names the next sector, the last word is 0xC000) is installed whole whenever the decoder accepts the table, with NO condition on the rest of the table (other chains may join it, a directory run may lead into it, its head need not be its lowest sector): invariant WInv over the well-founded walk (akaiWalk_complete, by functional induction), addLinks_c (consistent writes), AInv over the outer loop. Raw chains visit no sector twice (arawChain_nodup / rawChain_nodup), so no length premise is needed. AKAI directory areas: C07_akai_dir_run — a run of k >= 1 consecutive reserved-flag (0x4000 / 0x8000, mixed) sectors that no link word points into, that does not continue an earlier run and that is followed by a sector which is not reserved-flagged — or ends with the table's last sector (the case the pinned decoder cut to one sector: D18, fix abf9ef6) — is installed as the chain d..d+k-1 ending with the last sector of the run, whatever word follows it and whatever else the table holds (akaiWalk_run: the walk through the run; akaiWalk_avoids: no other walk touches it; RInv over the outer loop). "
            "Tie: every raw AKAI table of 5 sectors over {free, EOF, both reserved flags, each link, out of range} and every small Roland table, decode + get_path from every start, model vs real code; property oracle computed from the raw words independently. "
            "Three genuine defects were found by this check and repaired (fix: commits 496f278, 38611f1, 60236d3)."
        ),
        design_ref="DESIGN.md §4 C07",
    ),
    "C08": dict(
        technique="Lean 4 proof (refinement of every stream class to an abstract read-only file, composed by induction over the nesting; sector read plan by induction) + exhaustive short-history correspondence",
        text=(
            "Machine-checked refinement: each class (StreamWrapper, StreamOffset, FileStream, SectorStream, MdfStream) is proved to behave as a read-only file over its logical content in EVERY store satisfying the global cursor invariant — "
            "whatever the cursors of the objects beneath it are — and the lemmas compose by induction over an arbitrary nesting (build_isFile). C08_refines: for any history of tell/seek(offset,whence)/read(n>=0) the answers equal those of the abstract file "
            "(read returns the logical bytes clipped at the end, cursor advances by the bytes returned, seek clamps to [0,len]); C08_window: nothing outside the window is returned. The multi-sector read plan of SectorStream._read is proved to return the exact slice "
            "for any sector size and any chain order (readPieces_spec). StreamReversed: C08_reversed_aligned (over any substream that behaves like a file, a read of m whole samples from a sample-aligned cursor returns exactly the bytes of the row-reversed content and advances by them: revContent_block + wrapRead_spec), C08_reversed_rejects_size / _position (a size or position that is not sample-aligned is rejected with an error). The reversed view is not folded into the Shape induction (its reads are partial). Tie: all histories of length <= 2 (+ stripes of 3/4) over 7 shapes and random nests to depth 4, model vs real objects over BytesIO. "
            "One genuine defect found and repaired (fix: 000eb96, read at the exact end of a chained file raised IndexError)."
        ),
        design_ref="DESIGN.md §4 C08",
    ),
    "C09": dict(
        technique="Lean 4 proof (the container views return the wrapped image; detection; invariance of anything computed from the view) + five-delivery end-to-end correspondence",
        text=(
            "Machine-checked: C09_mdf_view (the 2048-byte user-data view of any number of MODE1/2352 sectors is the image), C09_mdx_view (the MDX view is the image), C09_detect_mdf/_mdx/_raw (a wrapped delivery is recognised as what it is; an image whose third byte is 0 — every AKAI header — is never mistaken for a container), "
            "C09_invariant (hence the kind of image, every ls answer and every exported file are the same for all deliveries), on top of mkMdf_isFile / mkOffset_isFile (the stream objects behave as files over those views, incl. reads straddling the 2048 boundary). "
            "Tie: every generated AKAI image x {raw, 2352, MDX, cue->raw, cue->2352}: ls at every node and exported files identical across deliveries and equal to the Lean model, which detects and unwraps the container and follows the cue data track itself; sizes that are not multiples of 2048; all-audio cue -> CDDA. Roland images: pending C02."
        ),
        design_ref="DESIGN.md §4 C09",
    ),
    "C10": dict(
        technique="Lean 4 proof (totality of the lookup, round trip at any depth under distinct normalised names) + correspondence of tokenising/lookup/not-found message on real Traversable trees",
        text=(
            "Machine-checked so far: C10_partition_letters_upper / _nonempty / _first (AKAI partition names A: .. Z:, AA:, ...: every character before the colon is an upper-case letter, so the listing never blanks one and the lookup's case folding never changes one), C10_total (for every path string the lookup finds a node or yields the `was not found` message: no exception path), C10_root, C10_child (in a directory whose children have pairwise distinct normalised names the token equal to a child's printed name finds exactly that child, at any depth of the remaining path). "
            "C10_roundtrip — at any depth: for any node at index path idx, the path made of the names shown for the nodes on the way addresses exactly idx, provided no earlier sibling has the same normalised name at each level. C10_tokenize / C10_printed_path (Props/C10T) — the surface syntax: non-empty printed names without separators, joined by any of '/', '\\' or a double backslash, with any blanks before and after and with or without one closing separator, are tokenised back to exactly those names (induction over the splitter, strip_around), and the text therefore resolves to exactly the node whose names were printed. NOT proved: items with a blank printed name in the middle of a path (the property excludes blank names; `a\\` + `` + `\\b` would read as one double separator). Tie: path tokenising on every string of length <= 4 over {a,A,/,\\,:,space} (plain and AKAI normalisation); trees of real Traversable/LeafElement objects with the real naming routines: "
            "every node x 8 spellings of its printed path must resolve and render, arbitrary strings never raise, and the model's result (node or exact message) equals the real parse_path."
        ),
        design_ref="DESIGN.md §4 C10",
    ),
    "C11": dict(
        technique="Lean 4 proof (frame/footprint argument over a shared store: every interleaving equals a product of independent abstract files) + exhaustive interleaving correspondence",
        text=(
            "Machine-checked: C11_noninterference — for any family of stream objects over one shared store (footprints may overlap arbitrarily: shared partition window, data-area window, raw-sector view, OS file) whose own cells are pairwise outside each other's footprints, "
            "ANY schedule of tell/seek/read on any of them gives exactly the answers of independent read-only files with separate cursors; C11_projection: each stream's answers are those of running its own operations alone; C11_stereo: the alternating left/right block reads of a stereo export. "
            "It rests on the C08 class lemmas being stated for every store. Tie: every interleaving of 2-3 streams x small programs over 6 sharing topologies + random schedules, model vs real objects, and an isolated-run oracle."
        ),
        design_ref="DESIGN.md §4 C11",
    ),
    "C12": dict(
        technique="Lean 4 proof (byte-order routing for every host and every process list; whole-frame lemma) + exhaustive lattice correspondence",
        text=(
            "Machine-checked: C12_swaps_host_independent — whichever of the three process lists make_transcoder builds and whatever the host byte order, channel c of a block has each sample byte-reversed exactly when its SOURCE STREAM's byte order differs from the destination's, "
            "one flag per decoded channel in source order (this is the statement the pinned code violated; fix a59da5e); C12_channels (an accepted transcoder has one output channel per source channel), C12_tail (trailing bytes < 1 frame never reach the output), "
            "passLoop_flatten (passthrough = whole frames for every block size, in Props/C03). C12_pair / pipeLoop_pair — a left and a right mono stream of F frames each (the stereo pairs of AKAI and Roland) come out as exactly F interleaved frames, frame f = left frame f then right frame f, for every internal block size (induction over the pipeline loop). C12_pair_any / pipeLoop_pair_any — the same two streams with ANY two lengths Fa, Fb: the output starts with the min(Fa,Fb) interleaved frames and holds T frames with min(Fa,Fb) <= T <= max(Fa,Fb), for every internal block size (C12_pair_any_equal: equal lengths give exactly the interleaving). C12_single (Props/C12I) — ONE source stream of any number nch >= 1 of interleaved channels, any sample width, little- or big-endian, signed or not, any length (also with stray trailing bytes), for every host byte order and every internal block size: through the passthrough when its encoding equals the destination's and through the de-interleave / byte-order / re-interleave pipeline otherwise, the concatenated output is exactly the whole frames of the source in order, every sample in its place (hence every channel in its place), byte-reversed exactly when the source is big-endian; only the bytes that do not form a whole frame are dropped (block_single: de-interleaving a block with `reshape((-1, n)).T`, mapping every sample and re-interleaving gives the block's whole frames back, via everyNth_spec / encodeBlock_channels; pipeLoop_single / passLoop_single: induction over the block loop). This is the path of every mono sample and of CDDA's interleaved stereo. C12_block_general / C12_block_pipeline (Props/C12G) — ONE BLOCK of ANY number of sources, each with any number nch >= 1 of interleaved channels (one common sample width, either byte order per source, any host): when every source has delivered m >= 1 whole frames, decoding every source into its channels (`reshape((-1, n)).T`), applying the byte-order steps (applySwaps_sources: every channel is treated by ITS source's byte order) and interleaving gives, frame by frame, the sources' frames in source order with their channels in channel order, every sample byte-reversed exactly when its source is big-endian: one output channel per source channel, frame f of channel c = frame f of source channel c (source_frame, encodeBlock_slots). C12_equal_lengths (Props/C12L) — through make_transcoder, for ANY number (>= 2) of source streams of one sample width, each with any number nch >= 1 of interleaved channels and its own byte order, all holding F whole frames: the output is exactly F frames, frame f being — source by source, channel by channel — frame f of every source, byte-reversed exactly for big-endian sources, for every host byte order and EVERY internal buffer size (pipeLoop_uniform: induction over the block loop on a state of (source, remaining bytes) pairs; expected_split: the first min(nf, R) frames come from the block, the rest from the advanced state). NOT yet proved: more than two sources (or an interleaved source next to others) of UNEQUAL lengths — where the loop stops and what the padded tail holds; C12_pair_any proves that for a pair, the lattice and the oracle cover the rest. "
            "Tie: exhaustive lattice 1..3 streams x {1,2,3} interleaved channels x width {1,2,4} x byte order per stream x lengths {0..3 frames + partial bytes} x block {1 frame, 2 frames, 4096} x host {LE, BE patched}, every source byte distinct."
        ),
        design_ref="DESIGN.md §4 C12",
    ),
    "C02": dict(
        technique="Lean 4 proof (window/reversal/chain-order theorems over the Roland model) + whole-image correspondence: independent Roland S-7xx writer -> real export/ls vs Lean parser model vs logical oracle",
        text=(
            "Machine-checked: C02_orphan_scan_aligned / C02_orphans_position_based (the orphan search - a sequential parse of the performance directory that loses its alignment at a name that does not decode - is the position-based scan whenever all names decode), C02_window (a window inside the written words is exported as exactly those words, whatever follows them; reversed word-wise for the reverse modes), C02_mode_window (modes 1,3 end at the release end, the others at the sustain end, exactly 5,6 reversed), C02_chain_content / C02_cluster_read (content = clusters in chain order, each read whole), C02_sample (composition on the model), C02_file_clusters with C07_getPath_sound (the chain is the FAT's), reverseWords_enc / involutive. From the raw image: C02_clusters_from_image — if the FAT area parses and the RAW FAT holds a chain c whose head is an allocatable cluster (other words may point at it or into the chain), the file starting there with leading-cluster offset top is exactly c minus its first top clusters, in chain order (parseFat_links + C07_roland_complete). The writer's side: C02_sample_record_roundtrip — a sample written as a 32-byte directory record and a 48-byte parameter record (names, FAT entry, five 32-bit loop points, loop mode, tuning bytes, leading-cluster offset, option byte, key; every other byte arbitrary) at the slots of sample i parses to exactly those values; C02_written_sample composes it with the raw FAT chain and C02_sample: the node the parser builds is (written record, clusters of the chain after the offset), and it exports exactly the window the loop mode addresses, reversed for the reverse modes, for every cluster order. The tool's side, on the tree (Props/C02E): C02_export_perf — a performance whose patches and referenced samples carry clean, pairwise distinct names (the samples' names no pair halves) is exported as exactly one file per referenced sample, patch by patch in slot order, at <dir>/<stored name>.wav; exportOne_mono — each such file is the RIFF header buildWav computes followed by exactly the whole 16-bit frames of the window sampleData addresses (C12_single, 4096-byte blocks); C02_export_tree — for volumes and performances with clean, pairwise distinct names and plain performances, export writes volume by volume, performance by performance exactly those WAVs at <volume>/<performance>/<name>.wav and nothing else. "
            "Tie: gen_roland writes images from logical discs (7 loop modes, 6 rates, FAT version flag 1/2, contiguous/reversed/random/head-not-lowest chains, cluster_top 0-2, windows ending on k*9216, shared and orphan performances); the real tool's export and ls at every node are compared with the Lean model of the whole parser (ID area, FAT decode, directories, pointer lists, naming, WAV) and with PCM/rate computed from the logical disc. "
            "Modelled, not verified: construct's struct parsing is represented by explicit offsets (checked by the correspondence), numpy unique/reshape by sort+dedupe / word reversal."
        ),
        design_ref="DESIGN.md §4 C02",
    ),
    "C13": dict(
        technique="Lean 4 proof (totality of every model loop; iteration-count bounds and fuel-independence theorems) + malformed-input sweep of the real tool under RLIMIT_CPU/RLIMIT_AS, tied to the model on outcome and results",
        text=(
            "PARTIAL BY NATURE: CPU seconds and resident memory of CPython are not expressible in the model. Machine-checked, for all inputs: every loop of the model is a total Lean function (structural or with a proved measure: C13_akai_walk_measure; no `partial`), "
            "C13_get_path (<= size sectors or a reported error on any table), C13_partition_count (partitions x 8192 <= file size) and C13_partition_fuel (the model's fuel never cuts the scan short), C13_file_table (<= len/24 entries), C13_cue_tracks / C13_cue_fuel, "
            "C13_roland_volumes / _perf_scan / _chain (<= count, 512, 65536), C13_window_bound (audio <= content), C13_keygroups (the keygroup chain is walked number_of_keygroups times whatever next-addresses are stored). "
            "Tie + oracle: random bytes (bare / behind AKAI or Roland signatures / sparse 2.9 MB / as cue body) and generated AKAI, Roland, CDDA images with 1-3 targeted corruptions (SAT/FAT specials, in-range links, 2-cycles, self loops, long cycles outside any file, noise; sizes, counts, pointer lists, headers; kilobyte-long cue titles and lines, thousands of tracks, huge numbers) run ls (3 levels) + export in a forked child with RLIMIT_CPU = 10 s + 20 s/MiB and RLIMIT_AS growth = 256 MiB + 32 x size; "
            "AKAI/Roland/random inputs are also run through the Lean model and must agree on outcome class and results. Quadratic shapes by construction: 600000 blank cue lines, three tracks sharing a 40000-character title, a 60000-cluster descending Roland chain, 3700 AKAI heads entering one directory run, damaged program files (self / backward keygroup links, count bytes 255). Found and fixed: cubic regex in make_export_name (6bd604a), cue parser quadratic in lines (a28bdcb), Roland decoder re-walking resolved tails (04ba142), stereo-ending expression (435767a), AKAI decoder re-walking directory runs (0664bf8); re-finds D7 (Roland FAT cycle) when the guard is removed. Recorded (known_findings.json): work / output / memory proportional to what the tables NAME rather than to the image (aliased AKAI entries, overlapping cue windows, Roland pointer fan-out, program count bytes) and the listing padded to the widest name."
        ),
        design_ref="DESIGN.md §4 C13",
    ),
    "C20": dict(
        technique="Lean 4 proof (layout tables regenerated from the construct objects of /repo and proved equal to the model's; tiling, locality and read-back theorems) + ls-output oracle on images whose every header field is random + model correspondence",
        text=(
            "Machine-checked: C20_header_layout / _keygroup_layout / _zone_layout and C20_kind_tables, C20_*_shown (translator tie: name, offset, size of every sub-construct of ProgramHeaderConstruct, KeygroupConstruct's fixed head and VelocityZoneConstruct as read off /repo on this run, and for every one-byte field the text printed for each of the 256 byte values, equal the model's tables), "
            "C20_*_tiles (fields tile 72 / 34 / 24 bytes without gap or overlap; kgSize 4 = 150), C20_field_local (what is shown for a field depends on that field's bytes only), C20_read_back / C20_shown_determines_byte (for numeric, note, tuning, channel and output fields the shown text reads back to the stored byte: a wrong value cannot print the same), "
            "C20_enum_names_distinct, C20_roland_point(_inj), C20_roland_freq, C20_roland_modes. "
            "Oracle: AKAI samples, AKAI programs (1-5 keygroups at standard / gapped / shuffled / sequential addresses, 0-4 zones in leading or scattered slots), Roland samples and CDDA tracks with every field random; `ls <item>` parsed back into key/value pairs and compared with the stored values, under the 300-line cap. "
            "Tie: the same listings line by line against the Lean model of the whole parser (AKAI incl. program / keygroup chain / zone filtering, Roland). Not proved: the dynamic tail of the keygroup (zones, per-slot arrays) is modelled by formula and covered by correspondence only; CDDA tracks by oracle only."
        ),
        design_ref="DESIGN.md §4 C20",
    ),
    "C14": dict(
        technique="Lean 4 proof (replacing one 24-byte table entry leaves every other entry's parse unchanged) + byte-sweep damage correspondence",
        text=(
            "Machine-checked: rd_setEntry / C14_other_entries — whatever 24 bytes replace entry k of an AKAI file table, every other entry parses to exactly what it parsed to before and its end-marker test is unchanged, because every entry is read at its own boundary 24*j (true after fix 3b83a7e; the pinned code lost all following entries: D9). "
            "Tie: for generated volumes every type-byte value and a set of values of each of the other 23 byte positions of an entry (thorough: all 256), plus multi-byte damage: ls + export compared with the undamaged run (oracle) and with the Lean model. "
            "Recorded finding KF-C14-name-collision (a damaged name that now equals a sibling's name renames one of them: inherent to naming by stored name). Roland: C14_roland_other_samples — whatever bytes replace the directory and parameter records of sample i, every other sample's record parses to what it parsed to before (records of different indices do not overlap; directory area ends before the parameter area). Harness: besides the AKAI byte sweep, every byte of one Roland sample's 32-byte directory record and 48-byte parameter record is damaged (4 values; thorough all 256 on one image) and the other samples of the performance must keep their names and audio. Found and fixed through this check: 9b6f1ef (a damaged size that cuts a header inside an integer field crashed the whole volume), 10aea0f (a reverse-mode sample whose damaged record addresses more than its clusters hold aborted the export with a numpy error)."
        ),
        design_ref="DESIGN.md §4 C14",
    ),
    "C15": dict(
        technique="Lean 4 proof (block-wise reader over content with holes: prefix / completeness theorems for AKAI and Roland chains at every cut) + truncation sweep of the real tool tied to the model",
        text=(
            "Machine-checked (data path, all chains / windows / cuts): C15_read_prefix (pieces that are prefixes of full sectors => the forward block read is a prefix of the read over the complete chain), C15_read_is_window_prefix (never bytes from elsewhere), "
            "C15_complete_forward / _reversed (nothing missing => the whole window), C15_akai_audio_prefix and C15_roland_audio_prefix (instances for a partition / image cut at any byte, any chain order), C15_wav (= C04: whatever PCM results the file is well formed). "
            "C15_roland_reverse_prefix (reverse modes: blocks are read from the end of the window, what survives is a prefix of the reversed audio). NOT proved: the directory path (which files are reported at all); validated by the sweep. "
            "Tie + oracle: generated AKAI (directories before/after data, pairs), Roland and CDDA images cut at every sector/cluster/frame boundary (-1,0,+1), inside every partition header field, the tables, directories, parameter areas and random offsets; each reported file must be a well-formed WAV whose PCM is a prefix of the complete run's, each file lying before the cut must be exported complete; AKAI/Roland cut images also go through the Lean model (export + ls). "
            "Found and fixed: 51a0010 (short header read aborted the export), 36640b1 (struct.error from a cut partition header)."
        ),
        design_ref="DESIGN.md §4 C15",
    ),
    "C16": dict(
        technique="Lean 4 proof: memo-table refinement of the image object (memoised levels unobservable when every action installs the same routines - a table regenerated from actions.py; rewound stream cursors) + history correspondence against fresh objects",
        text=(
            "Machine-checked: C16_pure — with the object state made explicit (memoised levels, data-stream cursors) and the operations ls p / export, the answer to any operation after any history equals the answer from any other state, in particular a fresh object. In the model no answer reads the state (the transcoder rewinds first: fix 9bb4eeb); "
            "The state that DOES persist is modelled in Props/C16M: a memo table of realised levels (`children` = look up, else realise under the routines installed now, and memoise) and a cursor per data stream. C16_memo / C16_actions: if every operation of a history installs the same routines, each answer is what a fresh object gives, whatever was listed or exported before; routines_same is the tie obligation - the routine tables of ls_action and export_samples_to_wav are recorded from /repo on every run (Gen/Routines) and must coincide (a Lean example shows the answers DO become history-dependent when they differ); C16_rewind_read / C16_second_export: a rewound stream reads its whole content wherever the cursor was left (the D10 repair), with the un-rewound counterexample. That the CODE has no further dependency is what the tie checks: random histories of 2-8 operations (ls at valid/invalid/too-deep paths, export, repeated export) on one opened image vs a fresh object per operation, AKAI and CDDA, image SHA-256 before/after, and the Lean model's answers. Found and repaired: D10."
        ),
        design_ref="DESIGN.md §4 C16",
    ),
    "C17": dict(
        technique="Lean 4 proof (induction over the classified line list for the three nested consumers; list lemmas for strip) + hand-written regex matchers validated against the four re objects",
        text=(
            "Machine-checked: the parser is a function of the classified lines (C17_machine); a line's kind is unchanged by leading/trailing blanks from the whole str.strip set (C17_blanks, C17_blank_line); keyword recognition ignores letter case (C17_case); "
            "text without a FILE line is rejected (C17_no_file); anything before the first FILE line is ignored (C17_before_file); after the first TRACK line, removing every unrecognised line and every blank line leaves every track's number, mode, title and index times unchanged, "
            "for any number of tracks and any placement (C17_in_track, trackBody_filter). Tie: canonical sheets of 1-6 tracks with each cosmetic transformation at every line position, malformed sheets, and 10^4 (quick) / 10^5 generated near-miss lines through `classify` vs the real regexes."
        ),
        design_ref="DESIGN.md §4 C17",
    ),
    "C18": dict(
        technique="Lean 4 proof (decide +kernel over complete finite domains, induction for unbounded strings/ints) + translator-generated tables (Gen = model) + exhaustive correspondence",
        text=(
            "Machine-checked Lean theorems: AKAI<->ASCII is a bijection on exactly 41 codes and rejects every other byte (all 256, plus all larger ints); "
            "name strings of any length round-trip (induction); note number -> note -> number is the identity for every integer (omega), note text round-trips for octaves 0-9 in both cases; "
            "tuning byte -> cents -> byte is the identity on all 256 bytes in kernel-evaluated IEEE doubles. Tie: the translator evaluates each Python codec on all 256 bytes on every run and the "
            "kernel proves those tables equal the model (Gen = model obligations), plus an exhaustive driver correspondence. The domains are finite, so the tie is complete, which is the right level for a codec."
        ),
        design_ref="DESIGN.md §4 C18",
    ),
    "C19": dict(
        technique="Lean 4 proof (induction over block lists, polymorphic in the sample type: no algebraic law) + translator-generated preset constants + exhaustive correspondence over all block compositions against the loaded .so and the rewritten .pyx source",
        text=(
            "Machine-checked: IIR (generic and ChickenSys) block-split invariance, output count and reset for every block list (C19_iir_split/_count/_reset), with the filter polymorphic in the "
            "sample type so the result holds for IEEE doubles; saturation of both int16 presets (C19_csiir_sat*, C19_csfir_sat). FIR: the repaired filter meets the full property for every block list "
            "(C19_fir_split_fixed/_count_fixed); the code as written is proved to meet it only when every block holds >= N-1 >= 1 samples (C19_fir_split_partial) and a kernel-checked counterexample "
            "(C19_fir_counterexample) shows the full statement is false of it — replayed on the implementation and recorded as known findings KF-C19-* (Cython is not available, so fir.pyx cannot be repaired effectively). "
            "Tie: model vs the loaded extension modules AND vs the .pyx sources executed through a rewriter, exhaustively over all compositions of signals up to length 7 (quick) / 10 (thorough); preset constants regenerated and proved equal to the model's."
        ),
        design_ref="DESIGN.md §4 C19",
    ),
}

NOT_YET = "check under construction in this round (model/theorems not yet committed); see DESIGN.md §4 for the planned proof"


def main():
    checks = []
    for pid in ALL:
        if pid not in CHECKS:
            continue
        c = CHECKS[pid]
        checks.append(
            {
                "property_id": pid,
                "quick_cmd": f"/venv/bin/python harness/check.py --property {pid} --tier quick",
                "thorough_cmd": f"/venv/bin/python harness/check.py --property {pid} --tier thorough",
                "evidence_file": f"evidence/{pid}.json",
                "replay_cmd_template": f"/venv/bin/python harness/check.py --property {pid} --replay {{path}}",
                "engine": "lean-proof+correspondence",
                "level_claimed": {"category": "proof", "text": c["text"], "design_ref": c["design_ref"]},
                "level_note": c.get("note", NOTE_COMMON),
                "technique": c["technique"],
            }
        )
    man = {
        "version": 1,
        "setup_cmd": "/venv/bin/python harness/setup.py",
        "hooks": {
            "guard": "SMPL_EXTRACT_VERIF",
            "enable": "no source hooks are needed: the harness imports /repo in-process and varies block size / host byte order by patching module attributes from the harness process",
            "baseline_off_cmd": "cd /repo && /venv/bin/python -m pytest -ra -q -p no:cacheprovider --timeout=900 --continue-on-collection-errors",
            "source_commits": [],
            "add_only": True,
        },
        "engines": [
            {
                "name": "lean-proof+correspondence",
                "path": "harness/check.py",
                "serves_properties": [c["property_id"] for c in checks],
                "kind_free_text": "Lean 4 theorems over a hand-written executable model (lean/Smpl) + translator-generated data (lean/Smpl/Gen) + line-protocol correspondence between the compiled model driver and the real Python code",
            }
        ],
        "checks": checks,
        "not_applicable": [{"property_id": p, "reason": NOT_YET} for p in ALL if p not in CHECKS],
        "notes": "All checks: exit 0 = held; exit 1 + VIOLATION line; exit 2 = harness error/timeout. Known findings: known_findings.json.",
    }
    (VERIF / "MANIFEST.json").write_text(json.dumps(man, indent=1) + "\n")


if __name__ == "__main__":
    main()
