#!/venv/bin/python
"""Writes /verif/MANIFEST.json from the table below (kept in one place so it stays valid)."""
import json
from pathlib import Path

VERIF = Path(__file__).resolve().parent.parent
ALL = [f"C{i:02d}" for i in range(1, 21)]

NOTE_COMMON = (
    "Trusted: Lean 4.33 kernel with axioms {propext, Classical.choice, Quot.sound} only (audited by #print axioms on every run; "
    "no sorry/native_decide/bv_decide); the statements in lean/Smpl/Props and specs in lean/Smpl/Spec; harness/translate.py; "
    "the correspondence harness (model driver vs real code); CPython/numpy/construct/OS are modelled, not verified."
)

CHECKS = {
    "C18": dict(
        technique="Lean 4 proof (decide +kernel over complete finite domains, induction for unbounded strings/ints) + translator-generated tables (Gen = model) + exhaustive correspondence",
        text=(
            "Machine-checked Lean theorems: AKAI<->ASCII is a bijection on exactly 41 codes and rejects every other byte (all 256, plus all larger ints); "
            "name strings of any length round-trip (induction); note number -> note -> number is the identity for every integer (omega), note text round-trips for octaves 0-9 in both cases; "
            "tuning byte -> cents -> byte is the identity on all 256 bytes in kernel-evaluated IEEE doubles. Tie: the translator evaluates each Python codec on all 256 bytes on every run and the "
            "kernel proves those tables equal the model (Gen = model obligations), plus an exhaustive driver correspondence. The domains are finite, so the tie is complete, which is the right level for a codec."
        ),
        design_ref="DESIGN.md §4 C18",
    ),
    "C19": dict(
        technique="Lean 4 proof (induction over block lists, polymorphic in the sample type: no algebraic law) + translator-generated preset constants + exhaustive correspondence over all block compositions against the loaded .so and the rewritten .pyx source",
        text=(
            "Machine-checked: IIR (generic and ChickenSys) block-split invariance, output count and reset for every block list (C19_iir_split/_count/_reset), with the filter polymorphic in the "
            "sample type so the result holds for IEEE doubles; saturation of both int16 presets (C19_csiir_sat*, C19_csfir_sat). FIR: the repaired filter meets the full property for every block list "
            "(C19_fir_split_fixed/_count_fixed); the code as written is proved to meet it only when every block holds >= N-1 >= 1 samples (C19_fir_split_partial) and a kernel-checked counterexample "
            "(C19_fir_counterexample) shows the full statement is false of it — replayed on the implementation and recorded as known findings KF-C19-* (Cython is not available, so fir.pyx cannot be repaired effectively). "
            "Tie: model vs the loaded extension modules AND vs the .pyx sources executed through a rewriter, exhaustively over all compositions of signals up to length 7 (quick) / 10 (thorough); preset constants regenerated and proved equal to the model's."
        ),
        design_ref="DESIGN.md §4 C19",
    ),
}

NOT_YET = "check under construction in this round (model/theorems not yet committed); see DESIGN.md §4 for the planned proof"


def main():
    checks = []
    for pid in ALL:
        if pid not in CHECKS:
            continue
        c = CHECKS[pid]
        checks.append(
            {
                "property_id": pid,
                "quick_cmd": f"/venv/bin/python harness/check.py --property {pid} --tier quick",
                "thorough_cmd": f"/venv/bin/python harness/check.py --property {pid} --tier thorough",
                "evidence_file": f"evidence/{pid}.json",
                "replay_cmd_template": f"/venv/bin/python harness/check.py --property {pid} --replay {{path}}",
                "engine": "lean-proof+correspondence",
                "level_claimed": {"category": "proof", "text": c["text"], "design_ref": c["design_ref"]},
                "level_note": c.get("note", NOTE_COMMON),
                "technique": c["technique"],
            }
        )
    man = {
        "version": 1,
        "setup_cmd": "/venv/bin/python harness/setup.py",
        "hooks": {
            "guard": "SMPL_EXTRACT_VERIF",
            "enable": "no source hooks are needed: the harness imports /repo in-process and varies block size / host byte order by patching module attributes from the harness process",
            "baseline_off_cmd": "cd /repo && /venv/bin/python -m pytest -ra -q -p no:cacheprovider --timeout=900 --continue-on-collection-errors",
            "source_commits": [],
            "add_only": True,
        },
        "engines": [
            {
                "name": "lean-proof+correspondence",
                "path": "harness/check.py",
                "serves_properties": [c["property_id"] for c in checks],
                "kind_free_text": "Lean 4 theorems over a hand-written executable model (lean/Smpl) + translator-generated data (lean/Smpl/Gen) + line-protocol correspondence between the compiled model driver and the real Python code",
            }
        ],
        "checks": checks,
        "not_applicable": [{"property_id": p, "reason": NOT_YET} for p in ALL if p not in CHECKS],
        "notes": "All checks: exit 0 = held; exit 1 + VIOLATION line; exit 2 = harness error/timeout. Known findings: known_findings.json.",
    }
    (VERIF / "MANIFEST.json").write_text(json.dumps(man, indent=1) + "\n")


if __name__ == "__main__":
    main()
