"""Run the real tool on one input inside a forked child under RLIMIT_CPU / RLIMIT_AS (property C13).

The parent has the package imported already, so a fork costs milliseconds; the child's CPU clock
starts at zero; memory is accounted as the growth of the peak resident set over the value at fork."""
from __future__ import annotations

import json
import os
import resource
import select
import signal
import time
from typing import Callable, Dict, List, Optional


def _vm_bytes() -> int:
    with open("/proc/self/statm") as f:
        return int(f.read().split()[0]) * os.sysconf("SC_PAGE_SIZE")


def _rss_kb() -> int:
    with open("/proc/self/statm") as f:
        return int(f.read().split()[1]) * os.sysconf("SC_PAGE_SIZE") // 1024


def child_main(fn: Callable[[], dict], wfd: int, cpu_s: int, mem_extra: int):
    try:
        resource.setrlimit(resource.RLIMIT_CPU, (cpu_s, cpu_s + 2))
        resource.setrlimit(resource.RLIMIT_AS, (_vm_bytes() + mem_extra, _vm_bytes() + mem_extra))
        rss0 = _rss_kb()
        t0 = time.process_time()
        try:
            res = fn()
        except MemoryError:
            res = {"fatal": "memory"}
        except BaseException as e:  # noqa
            res = {"fatal": "harness:" + type(e).__name__ + ":" + str(e)[:200]}
        res["cpu"] = round(time.process_time() - t0, 4)
        peak = resource.getrusage(resource.RUSAGE_SELF).ru_maxrss
        res["rss_growth_kb"] = max(0, peak - rss0)
        os.write(wfd, json.dumps(res).encode())
    finally:
        os._exit(0)


class Pool:
    """bounded set of concurrently running limited children."""

    def __init__(self, workers: int = 12):
        self.workers = workers
        self.active: Dict[int, dict] = {}
        self.results: List[dict] = []

    def submit(self, tag, fn, cpu_s: int, mem_extra: int, wall_s: float):
        while len(self.active) >= self.workers:
            self._poll(0.02)
        r, w = os.pipe()
        pid = os.fork()
        if pid == 0:
            os.close(r)
            signal.signal(signal.SIGALRM, signal.SIG_DFL)
            child_main(fn, w, cpu_s, mem_extra)
        os.close(w)
        self.active[pid] = {"tag": tag, "fd": r, "t0": time.time(), "wall": wall_s, "buf": b"", "cpu_limit": cpu_s}

    def _finish(self, pid, st, killed=False):
        a = self.active.pop(pid)
        while True:
            try:
                chunk = os.read(a["fd"], 1 << 16)
            except OSError:
                break
            if not chunk:
                break
            a["buf"] += chunk
        os.close(a["fd"])
        res: dict
        if a["buf"]:
            try:
                res = json.loads(a["buf"].decode())
            except Exception:
                res = {"fatal": "garbled-result"}
        else:
            if killed:
                res = {"fatal": "hang-wall"}
            elif os.WIFSIGNALED(st) and os.WTERMSIG(st) in (signal.SIGXCPU, signal.SIGKILL):
                res = {"fatal": "hang-cpu"}
            elif os.WIFSIGNALED(st):
                res = {"fatal": "signal-%d" % os.WTERMSIG(st)}
            else:
                res = {"fatal": "no-result"}
        res["tag"] = a["tag"]
        res["wall"] = round(time.time() - a["t0"], 3)
        self.results.append(res)

    def _poll(self, timeout):
        if not self.active:
            return
        fds = {a["fd"]: pid for pid, a in self.active.items()}
        rl, _, _ = select.select(list(fds), [], [], timeout)
        for fd in rl:
            pid = fds[fd]
            a = self.active[pid]
            try:
                chunk = os.read(fd, 1 << 16)
            except OSError:
                chunk = b""
            if chunk:
                a["buf"] += chunk
            else:
                _, st = os.waitpid(pid, 0)
                self._finish(pid, st)
        now = time.time()
        for pid, a in list(self.active.items()):
            if pid in self.active and now - a["t0"] > a["wall"]:
                try:
                    os.kill(pid, signal.SIGKILL)
                except ProcessLookupError:
                    pass
                _, st = os.waitpid(pid, 0)
                self._finish(pid, st, killed=True)
        # children that exited without closing (EOF is seen above); reap the rest
        for pid in list(self.active):
            try:
                p, st = os.waitpid(pid, os.WNOHANG)
            except ChildProcessError:
                p, st = pid, 0
            if p == pid:
                self._finish(pid, st)

    def drain(self):
        while self.active:
            self._poll(0.05)
        out, self.results = self.results, []
        return out
