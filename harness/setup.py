#!/venv/bin/python
"""MANIFEST.setup_cmd: regenerate Smpl/Gen from /repo and build all theorems + the model driver."""
import sys
from pathlib import Path

sys.path.insert(0, str(Path(__file__).resolve().parent))
import common
import translate

st = translate.run()
print("translate:", st)
ok, out = common.lean_build(["Smpl", "driver"])
print(out[-3000:])
# a failing build here is not fatal for setup: each check re-builds what it needs and reports
sys.exit(0)
