"""Cue-sheet family (layer L5): real cuesheet.py / cdda.image vs the Lean model; shared by C17, C03, C09."""
from __future__ import annotations

import io
import os
import re
import shutil
import tempfile
from typing import List, Optional, Sequence, Tuple

import impl
from common import hx


def hxs(s: str) -> str:
    return hx(s.encode("latin-1"))


def classify_real(raw: str) -> str:
    """the four `re` objects of cuesheet.py, applied the way the consumers apply them (after strip)."""
    from smpl_extract import cuesheet as C

    t = raw.strip()
    if not t:
        return "blank"
    m = C._FILE_LINE_REGEX.match(t)
    if m:
        return "file " + hxs(m.groups()[0])
    m = C._TRACK_LINE_REGEX.match(t)
    if m:
        return f"track {int(m.groups()[0])} " + hxs(m.groups()[1])
    m = C._INDEX_LINE_REGEX.match(t)
    if m:
        return "index " + " ".join(str(int(g)) for g in m.groups())
    m = C._TITLE_LINE_REGEX.match(t)
    if m:
        return "title " + hxs(m.groups()[0])
    return "other " + hxs(t)


def render_cue(c) -> str:
    parts = ["ok " + hxs(c.bin_file_name)]
    for t in c.tracks:
        title = "N" if t.title is None else "T" + hxs(t.title)
        idx = ",".join(f"{i.number}:{i.n_minutes}:{i.n_seconds}:{i.n_frames}" for i in t.indices)
        unp = ",".join(hxs(u) for u in t.unparsed)
        parts.append(f"track {t.number} {hxs(t.mode)} {title} [{idx}] [{unp}]")
    # same shape as the driver prints, also for a sheet with a FILE line and no track
    return parts[0] + " ; " + " ; ".join(parts[1:])


HANGS = [0]


class _Guard:
    """watchdog with a circuit breaker: after 5 expiries the parser counts as hanging for the rest of the run
    (otherwise a parser that spins on most inputs would make the check itself run for hours)."""

    def __init__(self, seconds):
        self.cm = impl.watchdog(seconds)

    def __enter__(self):
        if HANGS[0] >= 5:
            raise impl.Hang()
        return self.cm.__enter__()

    def __exit__(self, et, ev, tb):
        if et is not None and issubclass(et, impl.Hang):
            HANGS[0] += 1
        return self.cm.__exit__(et, ev, tb)


def parse_real(lines: Sequence[str]) -> str:
    from smpl_extract.cuesheet import BadCueSheet, parse_cue_sheet

    try:
        with _Guard(3.0):
            c = parse_cue_sheet(list(lines))
        return render_cue(c)
    except BadCueSheet:
        return "err BadCueSheet"
    except Exception as e:
        return "err " + impl.exc_name(e)


def meaning_real(lines: Sequence[str]):
    from smpl_extract.cuesheet import BadCueSheet, parse_cue_sheet

    try:
        with _Guard(3.0):
            c = parse_cue_sheet(list(lines))
    except BadCueSheet:
        return "BadCueSheet"
    except impl.Hang:
        return "hang"
    return (
        c.bin_file_name,
        [(t.number, t.mode, t.title, [(i.number, i.n_minutes, i.n_seconds, i.n_frames) for i in t.indices]) for t in c.tracks],
    )


def windows_real(lines: Sequence[str], bin_len: int) -> str:
    """attempt_parse_cue_sheet with the recursion into the data-track image stubbed out."""
    from smpl_extract import actions as A
    from smpl_extract.cuesheet import BadCueSheet

    d = tempfile.mkdtemp(prefix="verif_cue_")
    old = A.determine_image_type
    try:
        from smpl_extract.cuesheet import parse_cue_sheet

        try:
            with _Guard(3.0):
                name = parse_cue_sheet(list(lines)).bin_file_name
        except BadCueSheet:
            return "err BadCueSheet"
        except impl.Hang:
            return "err hang"
        safe = os.path.basename(name) or "x.bin"
        with open(os.path.join(d, safe), "wb") as f:
            f.truncate(bin_len)
        if safe != name:
            return "skip"
        A.determine_image_type = lambda f: (f.close(), "DATA")[1]
        try:
            with _Guard(5.0):
                img = A.attempt_parse_cue_sheet(list(lines), d)
        except BadCueSheet:
            return "err BadCueSheet"
        except impl.Hang:
            return "err hang"
        if img == "DATA":
            return "data ; "
        out = ["cdda"]
        for t in img.tracks:
            ds = t._data_stream
            out.append(f"{hxs(t.title)} {ds.offset} {ds.end_of_file} {t.num_audio_samples}")
        ds = img.tracks[0]._data_stream.substream if img.tracks else None
        if ds is not None:
            ds.close()
        return " ; ".join(out) if len(out) > 1 else "cdda ; "
    finally:
        A.determine_image_type = old
        shutil.rmtree(d, ignore_errors=True)


def op_parse(lines: Sequence[str]) -> str:
    return "cue parse | " + " ".join(hxs(l) for l in lines)


def op_windows(lines: Sequence[str], bin_len: int) -> str:
    return f"cue windows {bin_len} | " + " ".join(hxs(l) for l in lines)


# ------------------------------------------------------------------ generators


def msf(frames: int) -> str:
    return f"{frames // (75 * 60):02d}:{(frames // 75) % 60:02d}:{frames % 75:02d}"


def canonical(rng, ntracks: int, titles=True, nidx=(1, 3), name="disc.bin", first=None) -> Tuple[List[str], List[int]]:
    """canonical sheet: FILE, then per track TRACK / [TITLE] / INDEX lines. Returns lines and first-index frames."""
    lines = [f'FILE "{name}" BINARY\n']
    cur = rng.choice([0, 0, 150, rng.randint(0, 300)]) if first is None else first
    firsts = []
    # track numbers: usually 1..n; sometimes gapped, sometimes in no order at all (S99: "the next track" is the next
    # one in the sheet, whatever its number)
    r = rng.random()
    numbers = list(range(1, ntracks + 1))
    if r < 0.2:
        numbers = sorted(rng.sample(range(1, 100), ntracks))
    elif r < 0.45:
        numbers = rng.sample(range(1, 100), ntracks)
    for idx, k in enumerate(numbers, 1):
        lines.append(f"  TRACK {k:02d} AUDIO\n")
        if titles and rng.random() < 0.7:
            lines.append(f'    TITLE "Track {k} {rng.choice(["A", "b-x", "Q 9"])}"\n')
        n = rng.randint(*nidx)
        pos = cur
        for j in range(n):
            lines.append(f"    INDEX {j:02d} {msf(pos)}\n")
            if j == 0:
                firsts.append(pos)
            pos += rng.randint(1, 40)
        cur = pos + rng.randint(1, 200)
    return lines, firsts


NAMES = ["disc.bin", "AKAI CD Vol 1 (Track 01).bin", "a b.bin", "My  Disc.BIN", "x-y_z.img", "sub/dir.bin"]


def intended(lines: Sequence[str]):
    """the meaning of a CANONICAL sheet (as `canonical` writes them), read off with plain string operations -
    independent of the parser under test: the value `meaning_real` must return for it."""
    name, tracks = None, []
    for l in lines:
        t = l.strip()
        if t.startswith("FILE "):
            name = t[t.index('"') + 1: t.rindex('"')]
        elif t.startswith("TRACK "):
            _, k, mode = t.split(" ")
            tracks.append([int(k), mode, None, []])
        elif t.startswith("TITLE "):
            tracks[-1][2] = t[t.index('"') + 1: t.rindex('"')]
        elif t.startswith("INDEX "):
            _, j, tm = t.split(" ")
            mm, ss, ff = tm.split(":")
            tracks[-1][3].append((int(j), int(mm), int(ss), int(ff)))
    return (name, [tuple(t) for t in tracks])


WS = [" ", "\t", "\x0b", "\x0c", "\x1c", "\x1f", "  \t "]
UNKNOWN = ["REM GENRE Rock", "PERFORMER \"Somebody\"", "FLAGS DCP", "PREGAP 00:02:00", "ISRC ABCDE1234567", "CATALOG 1234567890123",
           "REM TRACK 01 AUDIO", "SONGWRITER \"x\"", "POSTGAP 00:00:10"]
# unknown lines whose TEXT holds a cue keyword phrase (S54): recognised only if a pattern is searched for
# instead of matched at the start of the line
KEYWORDY = ['REM TITLE "Alternative Title"', 'REM INDEX 00 00:00:00', 'PERFORMER "INDEX 01 00:00:00"', 'REM ORIGINAL TITLE "x"',
            'REM FILE "other.bin" BINARY', 'SONGWRITER "TRACK 09 AUDIO"', 'REM see INDEX 07 12:34:56', 'xTITLE "glued"', 'REMINDEX 01 00:00:01',
            'PERFORMER "TITLE "inner""']
UNKNOWN = UNKNOWN + KEYWORDY


def recase(line: str, rng) -> str:
    out = line
    for k in ("FILE", "BINARY", "TRACK", "INDEX", "TITLE"):
        if k in out:
            v = rng.choice([k.lower(), k.title(), "".join(c.lower() if i % 2 else c for i, c in enumerate(k))])
            # only the keyword occurrences outside quotes
            pre, q, rest = out.partition('"')
            if k in ("BINARY",):
                head, _, tail = out.rpartition(k)
                out = head + v + tail
            else:
                out = pre.replace(k, v, 1) + q + rest
    return out


def inner_ws(line: str, ws: str) -> str:
    """every run of blanks outside double quotes (after the indentation) replaced by `ws`."""
    body = line.rstrip("\n")
    lead = body[: len(body) - len(body.lstrip(" "))]
    segs = body[len(lead):].split('"')
    for k in range(0, len(segs), 2):
        segs[k] = re.sub(" +", lambda m: ws, segs[k])
    return lead + '"'.join(segs) + "\n"


def cosmetic_variants(rng, lines: List[str], budget: int):
    """single transformations at every line position + combinations."""
    n = len(lines)
    first_track = next(i for i, l in enumerate(lines) if "TRACK" in l)
    # 1. case at each line
    for i in range(n):
        v = list(lines)
        v[i] = recase(v[i], rng)
        yield ("case", i), v
    # 2. blanks around each line
    for i in range(n):
        v = list(lines)
        body = v[i].rstrip("\n")
        v[i] = rng.choice(WS) + body.strip() + rng.choice(WS) + "\n"
        yield ("blanks", i), v
    # 3. blank line inserted at each position (incl. before FILE and at the end)
    for i in range(n + 1):
        v = list(lines)
        v.insert(i, rng.choice(["\n", "   \n", "\t\n", "\x0c\n"]))
        yield ("blankline", i), v
    # 4. unknown line before FILE, or anywhere after the first TRACK line
    for i in [0] + list(range(first_track + 1, n + 1)):
        for u in ((rng.sample(UNKNOWN[:-len(KEYWORDY)], 2) + rng.sample(KEYWORDY, 3)) if budget < 2000 else UNKNOWN):
            v = list(lines)
            v.insert(i, "  " + u + "\n")
            yield ("unknown", i), v
    # 6. the blanks BETWEEN the fields of a line (outside quotes) replaced by tabs / several blanks (S132: the
    #    patterns separate fields by `\s+`; a keyword must not be found by splitting at a literal blank)
    for i in range(n):
        v = list(lines)
        v[i] = inner_ws(v[i], rng.choice(["\t", "  ", " \t ", "\x0b", "\t\t"]))
        yield ("innerws", i), v
    v = [inner_ws(l, "\t") for l in lines]
    yield ("innerws", -1), v
    # 5. everything at once, random subsets
    for _ in range(max(5, budget // 50)):
        v = []
        for i, l in enumerate(lines):
            if rng.random() < 0.3:
                v.append(rng.choice(["\n", " \t\n"]))
            if (i == 0 or i > first_track) and rng.random() < 0.3:
                v.append(rng.choice(UNKNOWN) + "\n")
            x = recase(l, rng) if rng.random() < 0.5 else l
            if rng.random() < 0.5:
                x = rng.choice(WS) + x.strip() + rng.choice(WS) + "\n"
            v.append(x)
        if rng.random() < 0.5:
            v.append(rng.choice(UNKNOWN) + "\n")
        yield ("mixed", -1), v


def noise_line(rng) -> str:
    kws = ["FILE", "file", "TRACK", "track", "Track", "INDEX", "index", "TITLE", "title", "TRACKS", "INDEXX", "REM", "FILE\"", "BINARY", ""]
    parts = [rng.choice(kws)]
    for _ in range(rng.randint(0, 5)):
        parts.append(rng.choice([" ", "\t", "  ", "\x1c", "", "\""]) + rng.choice(
            ["01", "1", "007", "AUDIO", "MODE1/2352", "00:02:33", "1:2:3", "1:2", "12:34:56:78", "\"a.bin\"", "\"a\"b.bin\"", "BINARY", "binary",
             "WAVE", "\"x y\"", "\"", "z_^`[", "é" if False else "~", "-1", "9" * rng.randint(1, 25)]))
    s = "".join(parts)
    if rng.random() < 0.3:
        s = rng.choice(WS) + s
    if rng.random() < 0.3:
        s = s + rng.choice(WS)
    return s + ("\n" if rng.random() < 0.8 else "")
