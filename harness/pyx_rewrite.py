"""Execute smpl_extract/filters/*.pyx *sources* as plain Python.

Cython is not installed in this sandbox, so an edit to a .pyx file cannot reach the compiled
extension modules.  This small Cython-subset -> Python rewriter lets the correspondence check
see the *source*: cimports and decorators are dropped, `cdef` declarations / typed parameters
become plain ones, `<T>` casts become helper calls with C semantics, `&x` becomes `x`,
malloc/free become list allocation / no-op, `cdef struct` becomes a small class.
If an edited source uses constructs outside this subset the rewriter raises, and the caller
reports a broken tie (trusted base: this file).
"""
from __future__ import annotations

import math
import re
import types
from pathlib import Path
from typing import List, Tuple

from common import REPO

C_TYPES = r"(?:unsigned\s+)?(?:size_t|short|int|long|double|float|char|bint|s_double_cbuffer)"


def _join_continuations(src: str) -> List[str]:
    out, buf, depth = [], "", 0
    for raw in src.split("\n"):
        line = raw.split("#", 1)[0].rstrip() if not raw.lstrip().startswith("#") else ""
        if not buf:
            buf = line
        else:
            buf += " " + line.strip()
        depth = buf.count("(") + buf.count("[") - buf.count(")") - buf.count("]")
        if depth <= 0:
            out.append(buf)
            buf = ""
    if buf:
        out.append(buf)
    return out


def _strip_arg(arg: str) -> str:
    a = arg.strip()
    if not a:
        return a
    # python-style annotation (name: type [= default])  -> keep
    if re.match(r"^\*{0,2}[A-Za-z_]\w*\s*(:|=|$)", a):
        return a
    # C-style:  TYPE[[:]] [*]name [= default]
    m = re.match(r"^.*?[\s\*\]]\**([A-Za-z_]\w*)\s*(=.*)?$", a)
    if not m:
        raise ValueError(f"cannot rewrite parameter {arg!r}")
    return m.group(1) + (" " + m.group(2) if m.group(2) else "")


def _split_args(s: str) -> List[str]:
    args, depth, cur = [], 0, ""
    for ch in s:
        if ch in "([":
            depth += 1
        elif ch in ")]":
            depth -= 1
        if ch == "," and depth == 0:
            args.append(cur)
            cur = ""
        else:
            cur += ch
    if cur.strip():
        args.append(cur)
    return args


def _operand_end(s: str, i: int) -> int:
    """index just past the primary expression starting at s[i] (after optional spaces)."""
    n = len(s)
    while i < n and s[i] == " ":
        i += 1
    if i < n and s[i] == "(":
        depth = 0
        while i < n:
            if s[i] == "(":
                depth += 1
            elif s[i] == ")":
                depth -= 1
                if depth == 0:
                    i += 1
                    break
            i += 1
    else:
        m = re.match(r"[A-Za-z_][\w\.]*|[\d\.]+", s[i:])
        if not m:
            raise ValueError(f"cannot find cast operand in {s!r}")
        i += m.end()
    # trailers
    while i < n and s[i] in "([":
        close = ")" if s[i] == "(" else "]"
        depth = 0
        op = s[i]
        while i < n:
            if s[i] == op:
                depth += 1
            elif s[i] == close:
                depth -= 1
                if depth == 0:
                    i += 1
                    break
            i += 1
    return i


_CAST = re.compile(r"<\s*(short|int|double|long|float|size_t)\s*(\*?)\s*>")


def _rewrite_casts(line: str) -> str:
    while True:
        ms = list(_CAST.finditer(line))
        if not ms:
            return line
        m = ms[-1]  # innermost / rightmost first
        end = _operand_end(line, m.end())
        operand = line[m.end() : end].strip()
        fn = "_cast_ptr" if m.group(2) else f"_cast_{m.group(1)}"
        line = line[: m.start()] + f"{fn}({operand})" + line[end:]


def rewrite(src: str) -> str:
    lines = _join_continuations(src)
    out: List[str] = []
    i = 0
    pending_field_inits: List[str] = []
    while i < len(lines):
        line = lines[i]
        s = line.strip()
        ind = line[: len(line) - len(line.lstrip())]
        i += 1
        if not s:
            out.append("")
            continue
        if s.startswith("cimport ") or re.match(r"from\s+\S+\s+cimport\s", s) or s.startswith("@cython."):
            continue
        m = re.match(r"cdef\s+struct\s+(\w+)\s*:", s)
        if m:
            fields = []
            while i < len(lines) and (not lines[i].strip() or lines[i].startswith(ind + " ")):
                f = lines[i].strip()
                i += 1
                if f:
                    fm = re.match(r".*?[\s\*](\w+)$", f)
                    fields.append(fm.group(1))
            out.append(f"{ind}class {m.group(1)}:")
            out.append(f"{ind}    def __init__(self):")
            for f in fields:
                out.append(f"{ind}        self.{f} = 0")
            continue
        m = re.match(r"cdef\s+class\s+(\w+)\s*:", s)
        if m:
            out.append(f"{ind}class {m.group(1)}:")
            continue
        # struct-typed attribute inside a cdef class
        m = re.match(r"cdef\s+(s_\w+)\s+(\w+)$", s)
        if m and ind:
            pending_field_inits.append(f"self.{m.group(2)} = {m.group(1)}()")
            # local struct variable inside a function also needs an instance
            out.append(f"{ind}{m.group(2)} = {m.group(1)}()")
            continue
        # function headers
        m = re.match(r"(cdef|cpdef|def)\s+(.*?)(\w+)\s*\((.*)\)\s*(->\s*[^:]+)?:$", s)
        if m and (m.group(1) != "def" or re.search(C_TYPES + r"[\s\[\*]", m.group(4))):
            name = m.group(3)
            args = ", ".join(_strip_arg(a) for a in _split_args(m.group(4)))
            if name == "__cinit__":
                name = "__init__"
            out.append(f"{ind}def {name}({args}):")
            if name == "__init__" and pending_field_inits:
                for f in pending_field_inits:
                    out.append(f"{ind}    {f}")
            continue
        if re.match(r"def\s+__cinit__\s*\(", s):
            out.append(ind + s.replace("__cinit__", "__init__", 1))
            for f in pending_field_inits:
                out.append(f"{ind}    {f}")
            continue
        # local declarations
        m = re.match(r"cdef\s+" + C_TYPES + r"\s*(?:\[[:,\s]*\])?\s*\**\s*(\w+)\s*(=\s*(.*))?$", s)
        if m:
            if m.group(2):
                out.append(f"{ind}{m.group(1)} = {_rewrite_casts(m.group(3))}")
            else:
                out.append(f"{ind}{m.group(1)} = 0")
            continue
        if s.startswith("cdef "):
            raise ValueError(f"unsupported cdef construct: {s!r}")
        line = _rewrite_casts(line)
        line = re.sub(r"(?<=[(,\s])&(?=[A-Za-z_])", "", line)
        out.append(line)
    return "\n".join(out) + "\n"


# ---- C-semantics helpers injected into the rewritten modules


def _wrap16(v: int) -> int:
    v &= 0xFFFF
    return v - 0x10000 if v >= 0x8000 else v


def _cast_short(x):
    return _wrap16(int(x))


def _cast_int(x):
    v = int(x) & 0xFFFFFFFF
    return v - (1 << 32) if v >= (1 << 31) else v


def _cast_long(x):
    return int(x)


def _cast_size_t(x):
    return int(x) & ((1 << 64) - 1)


def _cast_double(x):
    return float(x)


_cast_float = _cast_double


def _cast_ptr(x):
    return x


def _cround(x: float) -> float:
    x = float(x)
    if math.isnan(x) or math.isinf(x):
        return x
    return float(math.floor(abs(x) + 0.5)) * (1.0 if x >= 0 else -1.0) if abs(x) < 2**52 else x


def _trunc(x: float) -> float:
    return float(math.trunc(x))


class _Buf(list):
    def __bool__(self):  # a successful malloc is never NULL
        return True


def _malloc(n):
    return _Buf([0.0] * int(n))


HELPERS = {
    "_cast_short": _cast_short,
    "_cast_int": _cast_int,
    "_cast_long": _cast_long,
    "_cast_size_t": _cast_size_t,
    "_cast_double": _cast_double,
    "_cast_float": _cast_float,
    "_cast_ptr": _cast_ptr,
    "cround": _cround,
    "trunc": _trunc,
    "malloc": _malloc,
    "free": lambda p: None,
    "sizeof": lambda t: 1,
    "double": 1,
}


def load_module(name: str) -> types.ModuleType:
    path = REPO / "smpl_extract" / "filters" / f"{name}.pyx"
    py = rewrite(path.read_text())
    mod = types.ModuleType(f"pyx_{name}")
    mod.__dict__.update(HELPERS)
    mod.__dict__["__source__"] = py
    exec(compile(py, str(path) + ".rewritten.py", "exec"), mod.__dict__)
    return mod


def load_modules() -> Tuple[types.ModuleType, types.ModuleType]:
    return load_module("fir"), load_module("iir")


if __name__ == "__main__":
    import sys

    print(rewrite((REPO / "smpl_extract" / "filters" / f"{sys.argv[1]}.pyx").read_text()))
