"""Independent Roland S-7xx image writer (from ksy/roland/s770.ksy and the area layout), and the
export the property expects.  Images are written sparsely (areas at fixed offsets, ~2.8 MB + data)."""
from __future__ import annotations

import struct
from dataclasses import dataclass, field
from typing import Dict, List, Optional, Tuple

CLUSTER = 0x2400
FAT_OFF = 0x80800
FAT_N = 0x10000
DIR = {"vol": 0xA0800, "perf": 0xA1800, "patch": 0xA5800, "part": 0xAD800, "samp": 0xCD800}
PAR = {"vol": (0x10D800, 0x100), "perf": (0x115800, 0x200), "patch": (0x155800, 0x200), "part": (0x1D5800, 0x80), "samp": (0x255800, 0x30)}
TYPE = {"vol": 0x40, "perf": 0x41, "patch": 0x42, "part": 0x43, "samp": 0x44}
DATA_FAT_OFF = 0x2B1000  # byte address of cluster 0 (first usable cluster is 2 -> 0x2B5800)
FREQ = {0: 48000, 1: 44100, 2: 24000, 3: 22050, 4: 30000, 5: 15000}


def name16(s: str) -> bytes:
    b = s.encode("ascii")
    assert len(b) <= 16
    return b + bytes(16 - len(b))


@dataclass
class Sample:
    name: str
    words: List[int]
    start: int = 0
    sus_start: int = 0
    sus_end: Optional[int] = None
    rel_start: int = 0
    rel_end: Optional[int] = None
    mode: int = 0
    freq: int = 1
    key: int = 60
    cluster_top: int = 0
    fine: int = 0
    fines: Optional[List[int]] = None  # low bytes of the five loop points (default: fine, 1, 2, 3, 4)
    after: Optional[int] = None  # index of the sample whose data file (cluster chain) this one continues: same FAT
    # entry, its own clusters appended to that chain, `cluster_top` = the clusters that lie before them (S140)

    def window(self) -> Tuple[int, int]:
        """(first word, number of words) selected by the loop mode."""
        se = len(self.words) - 1 if self.sus_end is None else self.sus_end
        re_ = len(self.words) - 1 if self.rel_end is None else self.rel_end
        end = re_ if self.mode in (1, 3) else se
        return self.start, end - self.start + 1

    def pcm(self) -> bytes:
        s, n = self.window()
        ws = self.words[s : s + max(n, 0)] if n > 0 else []
        if self.mode in (5, 6):
            ws = ws[::-1]
        return b"".join(struct.pack("<H", w) for w in ws)


@dataclass
class Partial:
    name: str
    samples: List[Optional[int]]  # up to 4 sample indices (None = -1)


@dataclass
class Patch:
    name: str
    partials: List[int]


@dataclass
class Performance:
    name: str
    patches: List[int]


@dataclass
class Volume:
    name: str
    performances: List[int]


@dataclass
class Disc:
    volumes: List[Volume]
    performances: Dict[int, Performance]
    patches: Dict[int, Patch]
    partials: Dict[int, Partial]
    samples: Dict[int, Sample]
    version_flag: int = 1  # 1 -> 0xffff, 2 -> 0xfffe (link pointers carry +0x8000)
    num_performances: Optional[int] = None
    table_layout: Optional[str] = None  # how the pointer tables (volume -> performances, performance -> patches,
    # patch -> partials) are filled: "compact" (from slot 0), "holes" (unused slots between and before the used
    # ones), "back" (used slots at the end); None = drawn per image (S158: a table is not a -1-terminated list)


def dir_entry(name: str, kind: str, fat_entry: int = 0, nclusters: int = 0, v2: bool = False) -> bytes:
    link = 0x8000 if v2 else 0
    return name16(name) + bytes([TYPE[kind], 0]) + struct.pack("<HHHIHH", link, link, 0, 0, fat_entry, nclusters)


def spread(lst: List[int], n: int, layout: str, rng) -> List[int]:
    """the pointers of `lst` in a table of n slots, unused slots = -1."""
    k = len(lst)
    if layout == "back":
        return [-1] * (n - k) + list(lst)
    if layout == "holes" and k < n:
        pos = sorted(rng.sample(range(1, n), k)) if k < n - 1 else list(range(n - k, n))  # slot 0 stays unused
        out = [-1] * n
        for p_, v_ in zip(pos, lst):
            out[p_] = v_
        return out
    return list(lst) + [-1] * (n - k)


def serialize(disc: Disc, rng, shapes=("contiguous", "reversed", "random", "head-not-lowest")):
    nclusters_total = 2
    layout_t = disc.table_layout or rng.choice(["compact", "compact", "holes", "back"])
    layout = {}
    info = {"chains": {}, "exact_fill": 0, "head_not_lowest": 0, "table_layout": layout_t}
    # allocate clusters for every sample
    free = list(range(2, 2 + sum(-(-max(1, 2 * len(s.words)) // CLUSTER) + s.cluster_top for s in disc.samples.values()) + 8))
    nclusters_total = free[-1] + 1
    size = DATA_FAT_OFF + nclusters_total * CLUSTER
    img = bytearray(size)
    # ID area
    ida = bytearray(512)
    ida[0:4] = struct.pack("<I", 1)
    ida[4:14] = b"S770 MR25A"
    ida[32:63] = b"S-770 Hard Disk Ver. 1.00".ljust(31, b"\x00")
    ida[64:95] = b"Copyright Roland".ljust(31, b"\x00")
    ida[256:272] = name16("VERIF DISK")
    nperf = len(disc.performances) if disc.num_performances is None else disc.num_performances
    ida[272:286] = struct.pack("<IHHHHH", size, len(disc.volumes), nperf, len(disc.patches), len(disc.partials), len(disc.samples))
    img[0:512] = ida
    fat = [0] * FAT_N
    fat[0] = 0xFFFA
    v2 = disc.version_flag == 2
    fat[FAT_N - 2] = 0xFFFE if v2 else 0xFFFF
    fat[FAT_N - 1] = 0xFFFF
    for si, s in disc.samples.items():
        data = b"".join(struct.pack("<H", w) for w in s.words)
        n = -(-max(1, len(data)) // CLUSTER)
        shape = rng.choice(shapes)
        total = n + s.cluster_top
        if shape == "contiguous":
            secs = free[:total]
        elif shape == "reversed":
            secs = free[:total][::-1]
        else:
            secs = rng.sample(free, total)
            if shape == "head-not-lowest" and total > 1:
                secs.sort()
                secs = secs[1:] + secs[:1]
        for c in secs:
            free.remove(c)
        top = s.cluster_top
        roots = info.setdefault("_root", {})
        files = info.setdefault("_file", {})
        if s.after is not None and s.after in roots:
            # several samples in one data file: this sample's clusters are appended to the file `after` lives in
            root = roots[s.after]
            prev = files[root]
            top = len(prev) + s.cluster_top
            secs = prev + secs
            total = len(secs)
            info["shared_files"] = info.get("shared_files", 0) + 1
        else:
            root = si
        roots[si] = root
        files[root] = secs
        for a, b in zip(secs, secs[1:]):
            fat[a] = b
        fat[secs[-1]] = 0xFFF8
        info["chains"][si] = secs
        if total > 1 and secs[0] != min(secs):
            info["head_not_lowest"] += 1
        s_start, s_n = s.window()
        if s_n > 0 and (2 * (s_start + s_n)) % CLUSTER == 0:
            info["exact_fill"] += 1
        padded = data + bytes(n * CLUSTER - len(data))
        for k, c in enumerate(secs[top:]):
            img[DATA_FAT_OFF + c * CLUSTER : DATA_FAT_OFF + (c + 1) * CLUSTER] = padded[k * CLUSTER : (k + 1) * CLUSTER]
        img[DIR["samp"] + 32 * si : DIR["samp"] + 32 * si + 32] = dir_entry(s.name, "samp", secs[0], total, v2)
        se = len(s.words) - 1 if s.sus_end is None else s.sus_end
        re_ = len(s.words) - 1 if s.rel_end is None else s.rel_end
        fn = s.fines if s.fines is not None else [s.fine, 1, 2, 3, 4]
        pts = [(s.start << 8) | fn[0], (s.sus_start << 8) | fn[1], (se << 8) | fn[2], (s.rel_start << 8) | fn[3], (re_ << 8) | fn[4]]
        par = name16(s.name) + struct.pack("<5I", *[p & 0xFFFFFFFF for p in pts]) + bytes([s.mode, 1, 2, 3]) + struct.pack("<HH", top, total) + bytes([(0 << 4) | s.freq, s.key, 0, 0])
        assert len(par) == 48
        o = PAR["samp"][0] + 48 * si
        img[o : o + 48] = par
    img[FAT_OFF : FAT_OFF + 2 * FAT_N] = b"".join(struct.pack("<H", w) for w in fat)
    for pi, p in disc.partials.items():
        img[DIR["part"] + 32 * pi : DIR["part"] + 32 * pi + 32] = dir_entry(p.name, "part", v2=v2)
        par = bytearray(128)
        par[0:16] = name16(p.name)
        offs = [16, 32, 48, 64]
        for k in range(4):
            sel = p.samples[k] if k < len(p.samples) and p.samples[k] is not None else -1
            par[offs[k] : offs[k] + 2] = struct.pack("<h", sel)
            par[offs[k] + 2 : offs[k] + 11] = bytes([10 + k, 20 + k, 1, 2, 3, 0, 4, 127, 5])
        o = PAR["part"][0] + 128 * pi
        img[o : o + 128] = par
    for qi, q in disc.patches.items():
        img[DIR["patch"] + 32 * qi : DIR["patch"] + 32 * qi + 32] = dir_entry(q.name, "patch", v2=v2)
        par = bytearray(512)
        par[0:16] = name16(q.name)
        lst = spread(q.partials, 88, layout_t, rng)
        par[256:432] = struct.pack("<88h", *lst)
        o = PAR["patch"][0] + 512 * qi
        img[o : o + 512] = par
    for fi, f in disc.performances.items():
        img[DIR["perf"] + 32 * fi : DIR["perf"] + 32 * fi + 32] = dir_entry(f.name, "perf", v2=v2)
        par = bytearray(512)
        par[0:16] = name16(f.name)
        lst = spread(f.patches, 32, layout_t, rng)
        par[256:320] = struct.pack("<32h", *lst)
        o = PAR["perf"][0] + 512 * fi
        img[o : o + 512] = par
    for vi, v in enumerate(disc.volumes):
        img[DIR["vol"] + 32 * vi : DIR["vol"] + 32 * vi + 32] = dir_entry(v.name, "vol", v2=v2)
        par = bytearray(256)
        par[0:16] = name16(v.name)
        lst = spread(v.performances, 64, layout_t, rng)
        par[32:160] = struct.pack("<64h", *lst)
        o = PAR["vol"][0] + 256 * vi
        img[o : o + 256] = par
    return bytes(img), info


def perf_samples(disc: Disc, fi: int) -> List[int]:
    """sample indices a performance references, in the tool's order (per patch, de-duplicated per patch)."""
    out = []
    f = disc.performances[fi]
    for qi in sorted(set(f.patches)):
        if qi not in disc.patches:
            continue
        seen = []
        for pi in sorted(set(disc.patches[qi].partials)):
            if pi not in disc.partials:
                continue
            for si in disc.partials[pi].samples[:4]:
                if si is not None and si in disc.samples and si not in seen:
                    seen.append(si)
        out += seen
    return out


def expected_export(disc: Disc) -> Dict[str, dict]:
    """path -> {rate, pcm}; generated names are clean and unique inside a performance, and every sample is used once per performance."""
    exp = {}
    referenced = set()
    groups = []
    for v in disc.volumes:
        for fi in sorted(set(v.performances)):
            if fi in disc.performances:
                groups.append((v.name, fi))
                referenced.add(fi)
    nperf = len(disc.performances) if disc.num_performances is None else disc.num_performances
    if len(referenced) < nperf:
        orphan_name = "All Performances" if not disc.volumes else "_Orphan_perf"
        for fi in sorted(disc.performances):
            if fi not in referenced:
                groups.append((orphan_name, fi))
    for vname, fi in groups:
        for si in perf_samples(disc, fi):
            s = disc.samples[si]
            exp[f"{vname}/{disc.performances[fi].name}/{s.name}.wav"] = dict(rate=FREQ[s.freq], pcm=s.pcm())
    return exp


NAMES = ["Piano", "Strings", "Brass", "Kick", "Snare", "Pad", "Bass", "Choir", "Organ", "Flute", "Vibes", "Harp"]


def random_words(rng, n):
    base = rng.randrange(65536)
    return [(base + 31 * i + rng.randrange(5)) & 0xFFFF for i in range(n)]


def random_disc(rng) -> Disc:
    ns = rng.randint(1, 6)
    samples = {}
    for i in range(ns):
        n = rng.choice([1, 2, 100, 4608, 4607, 4609, 9216, rng.randint(1, 6000)])  # 4608 words = one cluster exactly
        w = random_words(rng, n)
        mode = rng.randrange(7)
        start = rng.choice([0, 0, rng.randint(0, n - 1)])
        se = rng.randint(start, n - 1)
        re_ = rng.randint(start, n - 1)
        if rng.random() < 0.5:
            se = re_ = n - 1
        samples[i] = Sample(f"{NAMES[i]} {i}", w, start, rng.randint(0, n - 1), se, rng.randint(0, n - 1), re_, mode, rng.randrange(6), rng.randint(21, 108), rng.choice([0, 0, 1, 2]), rng.randrange(256))
        if i >= 1 and rng.random() < 0.3:
            samples[i].after = rng.randrange(i)  # lives in the data file of an earlier sample (S140)
    npart = rng.randint(1, 4)
    partials = {}
    pool = list(samples)
    for i in range(npart):
        k = rng.randint(0, min(4, len(pool)))
        sel = rng.sample(pool, k)
        slots = sel + [None] * (4 - k)
        rng.shuffle(slots)
        partials[i] = Partial(f"Prt {i}", slots)
    npatch = rng.randint(1, 3)
    patches = {i: Patch(f"Patch {i}", rng.sample(list(partials), rng.randint(1, len(partials)))) for i in range(npatch)}
    nperf = rng.randint(1, 3)
    performances = {}
    for i in range(nperf):
        # keep every sample referenced at most once per performance (names then stay unique): one patch per performance, or disjoint ones
        performances[i] = Performance(f"Perf {i}", [rng.choice(list(patches))])
    nvol = rng.randint(0, 2)
    vols = []
    avail = list(performances)
    for i in range(nvol):
        k = rng.randint(0, len(avail))
        vols.append(Volume(f"Vol {i}", rng.sample(avail, k)))
    disc = Disc(vols, performances, patches, partials, samples, version_flag=rng.choice([1, 2]))
    return sparse(disc, rng) if rng.random() < 0.5 else disc


def sparse(disc: Disc, rng) -> Disc:
    """the same logical disc with its directory entries in scattered slots (the ID-area counts stay the
    numbers of entries, not the highest slot in use)."""
    def remap(keys, hi):
        new = sorted(rng.sample(range(hi), len(keys)))
        return dict(zip(sorted(keys), new))

    ms = remap(disc.samples, 40)
    mp = remap(disc.partials, 30)
    mq = remap(disc.patches, 20)
    mf = remap(disc.performances, 12)
    samples = {ms[k]: v for k, v in disc.samples.items()}
    partials = {mp[k]: Partial(v.name, [None if x is None else ms[x] for x in v.samples]) for k, v in disc.partials.items()}
    patches = {mq[k]: Patch(v.name, [mp[x] for x in v.partials]) for k, v in disc.patches.items()}
    performances = {mf[k]: Performance(v.name, [mq[x] for x in v.patches]) for k, v in disc.performances.items()}
    vols = [Volume(v.name, [mf[x] for x in v.performances]) for v in disc.volumes]
    return Disc(vols, performances, patches, partials, samples, version_flag=disc.version_flag, num_performances=disc.num_performances)
