#!/venv/bin/python
"""Entry point:  check.py --property Cxx [--tier quick|thorough] [--replay file]

Flow (DESIGN §2.6): translate /repo -> Smpl/Gen; lake build the property's theorems and the
model driver; audit axioms; correspondence (model vs real code) + property oracle on the real
code; on any break search for a concrete failing input; evidence; exit code.
"""
from __future__ import annotations

import argparse
import importlib
import json
import os
import random
import sys
import time
import traceback
from pathlib import Path

sys.path.insert(0, str(Path(__file__).resolve().parent))

import common
from common import (
    EVIDENCE,
    LEAN,
    REPLAYS,
    TRUSTED_BASE,
    VERIF,
    Finding,
    Report,
    audit,
    grep_forbidden,
    lean_build,
    load_obligations,
)
import findings as kf
import translate


class Ctx:
    def __init__(self, prop: str, tier: str, seed: int):
        self.prop = prop
        self.tier = tier
        self.seed = seed
        self.rng = random.Random(f"{prop}:{seed}")
        self.model_available = True
        self.deadline = time.time() + (420 if tier == "quick" else 3000)

    @property
    def quick(self) -> bool:
        return self.tier == "quick"

    def n(self, quick: int, thorough: int) -> int:
        return quick if self.quick else thorough

    def time_left(self) -> float:
        return self.deadline - time.time()


def write_replay(prop: str, seed: int, idx: int, payload: dict) -> Path:
    REPLAYS.mkdir(exist_ok=True)
    p = REPLAYS / f"{prop}_seed{seed}_{idx}.json"
    p.write_text(json.dumps(payload, indent=1, default=str))
    return p


def main() -> int:
    ap = argparse.ArgumentParser()
    ap.add_argument("--property", required=True)
    ap.add_argument("--tier", default=os.environ.get("VERIF_TIER", "quick"))
    ap.add_argument("--replay", default=None)
    args = ap.parse_args()
    prop = args.property
    tier = args.tier if args.tier in ("quick", "thorough") else "quick"
    try:
        seed = int(os.environ.get("VERIF_SEED", "0"))
    except ValueError:
        seed = 0
    t0 = time.time()
    ctx = Ctx(prop, tier, seed)
    # last-resort guard: a check must never hang (a real-code call that spins outside every per-call watchdog);
    # a timeout is reported as exit 2, never as a verdict
    import threading

    hard = 1700 if tier == "quick" else 4 * 3600

    def _too_long():
        sys.stdout.write(f"TIMEOUT property={prop} tier={tier} after {hard}s (exit 2: no verdict)\n")
        sys.stdout.flush()
        os._exit(2)

    _t = threading.Timer(hard, _too_long)
    _t.daemon = True
    _t.start()
    mod = importlib.import_module(f"props.{prop}")

    if args.replay:
        common.ensure_repo_on_path()
        payload = json.loads(Path(args.replay).read_text())
        ok = mod.replay(ctx, payload)
        print("replay:", "property holds on this input" if ok else "property FAILS on this input")
        return 0 if ok else 1

    broken: list[str] = []  # proof obligations / ties that no longer check
    notes: list[str] = []

    # 1. translator
    try:
        tr = translate.run()
    except Exception as e:
        tr = {"translator": "error: " + repr(e)}
    for k, v in tr.items():
        if v.startswith("error"):
            broken.append(f"translator section {k}: {v}")

    # 2. build theorems + driver
    mods = common.prop_modules(prop)
    ok_props, log_props = lean_build(mods)
    if not ok_props:
        errs = [l for l in log_props.splitlines() if l.startswith("error")][:8]
        broken.append("lake build %s failed: %s" % (" ".join(mods), " | ".join(errs)))
    ok_drv, log_drv = lean_build(["driver"])
    if not ok_drv:
        ctx.model_available = False
        errs = [l for l in log_drv.splitlines() if l.startswith("error")][:8]
        broken.append("lake build driver failed: " + " | ".join(errs))

    # 3. audit
    names = load_obligations().get(prop, [])
    discharged = 0
    axioms_seen: dict = {}
    if ok_props:
        au = audit(prop)
        for n in names:
            if au["ok"].get(n):
                discharged += 1
            else:
                broken.append(f"theorem {n}: missing or depends on disallowed axioms {au['axioms'].get(n)}")
        axioms_seen = au["axioms"]
        if tier == "thorough":
            with common.BuildLock():
                rc, out = common.lake(["env", "leanchecker"] + mods, timeout=3000)
            notes.append(f"leanchecker rc={rc}")
            if rc != 0:
                broken.append("leanchecker rejected Smpl.Props.%s: %s" % (prop, out[-500:]))
    hits = grep_forbidden()
    if hits:
        broken.append("forbidden tokens in Lean sources: " + "; ".join(hits[:5]))

    # 4. correspondence + oracle
    rep = Report(prop)
    try:
        common.ensure_repo_on_path()
        mod.run(ctx, rep)
    except Exception:
        tb = traceback.format_exc()
        broken.append("harness error while exercising the implementation: " + tb[-1500:])
    for d in rep.disagreements[:10]:
        broken.append(f"correspondence {d['family']}: model and implementation differ on `{d['op'][:200]}`")
    for f in rep.required_features:
        if rep.features.get(f, 0) == 0:
            notes.append(f"generator sanity: feature {f} was generated zero times")
            broken.append(f"generator sanity gate: feature {f} never generated")

    # 5. if something broke and no failing input is known yet: search
    if broken and not rep.findings and hasattr(mod, "search"):
        try:
            mod.search(ctx, rep)
        except Exception:
            notes.append("search error: " + traceback.format_exc()[-800:])

    # 6. verdict
    known = kf.load()
    exit_code = 0
    n_viol = 0
    printed_known = set()
    idx = 0
    seen_classes = set()
    for f in rep.findings:
        entry = kf.match(known, prop, f)
        if entry is not None:
            if entry["id"] not in printed_known:
                printed_known.add(entry["id"])
                print(f"KNOWN-FINDING: property={prop} {entry['what']}")
            continue
        if f.klass in seen_classes:
            continue
        seen_classes.add(f.klass)
        n_viol += 1
        p = write_replay(prop, seed, idx, {"property": prop, "class": f.klass, "input": f.detail, "broken": broken})
        idx += 1
        print(f"VIOLATION property={prop} replay={p}")
        exit_code = 1
    if broken and n_viol == 0:
        # the property is no longer shown to hold, but no failing input was found
        # (known findings do not excuse a broken obligation)
        n_viol += 1
        p = write_replay(
            prop, seed, idx, {"property": prop, "no_longer_checks": broken, "disagreements": rep.disagreements[:10]}
        )
        print(f"VIOLATION property={prop} replay={p} no-failing-input-found")
        exit_code = 1

    # 7. evidence
    n_obl = len(names)
    ev = {
        "property_id": prop,
        "tier": tier,
        "seed": seed,
        "level": "proof",
        "coverage": {
            "obligations": n_obl,
            "discharged": discharged,
            "checker_cmd": f"cd lean && lake build {' '.join(common.prop_modules(prop))} && lake env lean Smpl/Audit/{prop}.lean"
            + (f" && lake env leanchecker {' '.join(common.prop_modules(prop))}" if tier == "thorough" else ""),
            "trusted_base": TRUSTED_BASE + getattr(mod, "EXTRA_TRUST", []),
            "theorems": names,
            "axioms": axioms_seen,
            "evaluations": rep.evaluations,
            "distinct_nontrivial": len(rep.nontrivial),
            "rule": rep.rule,
            "samples": rep.samples or [{"obligation": n} for n in names[:3]],
            "exhaustive": rep.exhaustive,
            "families": rep.families,
            "features": rep.features,
            "translator": tr,
            "broken": broken,
            "notes": notes,
            "known_findings_printed": sorted(printed_known),
        },
        "assumptions": getattr(mod, "ASSUMPTIONS", []),
        "wall_s": round(time.time() - t0, 2),
        "violations": n_viol,
    }
    if discharged == 0 or n_obl == 0:
        # schema: proof-level keys need >= 1; fall back to the exploration-style keys
        cov = ev["coverage"]
        cov["obligations_total"] = cov.pop("obligations")
        cov["obligations_discharged"] = cov.pop("discharged")
    EVIDENCE.mkdir(exist_ok=True)
    (EVIDENCE / f"{prop}.json").write_text(json.dumps(ev, indent=1, default=str))
    print(
        f"{prop} {tier} seed={seed}: obligations {discharged}/{n_obl}, "
        f"{rep.evaluations} correspondence cases ({len(rep.nontrivial)} distinct non-trivial), "
        f"{len(rep.disagreements)} disagreements, {len(rep.findings)} failing inputs, "
        f"{ev['wall_s']}s -> exit {exit_code}"
    )
    for b in broken[:12]:
        print("  broken:", b[:400])
    return exit_code


if __name__ == "__main__":
    try:
        rc = main()
    except SystemExit:
        raise
    except Exception:
        traceback.print_exc()
        rc = 2
    sys.exit(rc)
