"""In-process adapters around the real code, with a wall-clock watchdog for calls that may hang."""
from __future__ import annotations

import signal
from contextlib import contextmanager


class Hang(Exception):
    pass


def _on_alarm(signum, frame):
    raise Hang()


@contextmanager
def watchdog(seconds: float):
    """Interrupt pure-Python loops after `seconds` (SIGALRM); numpy/C calls are short here."""
    old = signal.signal(signal.SIGALRM, _on_alarm)
    signal.setitimer(signal.ITIMER_REAL, seconds)
    try:
        yield
    finally:
        signal.setitimer(signal.ITIMER_REAL, 0)
        signal.signal(signal.SIGALRM, old)


EXC_MAP = {
    "RequestedInvalidSector": "RequestedInvalidSector",
    "InvalidFatDefinition": "InvalidFatDefinition",
    "SectorReadError": "SectorReadError",
    "IndexError": "IndexError",
    "BadAlign": "BadAlign",
    "BadReadSize": "BadReadSize",
    "AttemptToReadBeyondBuffer": "AttemptToReadBeyondBuffer",
    "BadCueSheet": "BadCueSheet",
    "CouldNotDetermineName": "CouldNotDetermineName",
    "Hang": "hang",
}


def exc_name(e: BaseException) -> str:
    mro = [k.__name__ for k in type(e).__mro__]
    if "ConstructError" in mro:
        return "ConstructError"
    for k in mro:
        if k in EXC_MAP:
            return EXC_MAP[k]
    return "Other:" + type(e).__name__


# ---------------------------------------------------------------- allocation tables


def get_path(links, size, start, timeout=0.3):
    from smpl_extract.util.fat import FileAllocationTable, SectorLink

    fat = FileAllocationTable(None, size, [SectorLink(n, bool(e)) for n, e in links])
    try:
        with watchdog(timeout):
            p = fat.get_path(start)
        return "ok " + " ".join(map(str, p))
    except BaseException as e:  # noqa
        if isinstance(e, (KeyboardInterrupt, SystemExit)):
            raise
        return "err " + exc_name(e)


def akai_decode(words, timeout=1.0):
    from construct import Int16ul
    from smpl_extract.akai.sat import SegmentAllocationTableAdapter

    ad = SegmentAllocationTableAdapter(None, Int16ul[1])
    with watchdog(timeout):
        return ad._decode(list(words), {}, "")


def roland_decode(words, timeout=1.0):
    from construct import Container
    from smpl_extract.roland.s7xx import fat as RF

    n = len(words)
    old = RF.FAT_NUM_ENTRIES
    RF.FAT_NUM_ENTRIES = n
    try:
        cont = Container(
            fat_entries=list(words),
            metadata=Container(
                fat_id=RF.FAT_AREA_ID, num_unused_clusters=0, version_flag_1=0xFFFF, version_flag_2=0xFFFF
            ),
            stream_size=0,
            fat_data_stream=None,
        )
        with watchdog(timeout):
            area = RF.FatAreaAdapter(RF.FatAreaStruct)._decode(cont, {}, "")
        return area.fat
    finally:
        RF.FAT_NUM_ENTRIES = old


def links_str(fat) -> str:
    return "ok " + " ".join(f"{l.next}:{1 if l.end else 0}" for l in fat.sector_links)


def decode_and_paths(kind, words, timeout=1.0) -> str:
    """decode, then get_path from every start; same rendering as the driver's *_paths ops."""
    try:
        fat = akai_decode(words, timeout) if kind == "akai" else roland_decode(words, timeout)
    except BaseException as e:  # noqa
        if isinstance(e, (KeyboardInterrupt, SystemExit)):
            raise
        return "err " + exc_name(e)
    outs = []
    for s in range(len(words)):
        if "err hang" in outs:
            outs.append("err hang")  # do not pay the timeout again for the same table
            continue
        try:
            with watchdog(0.1):
                p = fat.get_path(s)
            outs.append("ok " + " ".join(map(str, p)))
        except BaseException as e:  # noqa
            if isinstance(e, (KeyboardInterrupt, SystemExit)):
                raise
            outs.append("err " + exc_name(e))
    return " ; ".join(outs)
