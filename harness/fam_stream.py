"""Stream family (layer L1): real stream objects over BytesIO vs the Lean model; shared by C08, C11, C15."""
from __future__ import annotations

import io
import itertools
from typing import Any, Dict, List, Optional, Sequence, Tuple

import impl
from common import hx

# spec of one object: ("offset", sub, eof, off) | ("chain", sub, L, secs) | ("sector", sub, eof, L)
#                     | ("mdf", sub, eof) | ("rev", sub, eof, w) | ("wrap", sub, eof);   object 0 = base


class ViewLength(Exception):
    """a view reports a logical length other than the one its construction implies."""

    def __init__(self, kind, got, want):
        super().__init__(f"{kind} view reports length {got}, its content has {want}")
        self.kind, self.got, self.want = kind, got, want


def build_real(base: bytes, specs: Sequence[tuple]):
    from smpl_extract.alcohol.mdf import MdfStream
    from smpl_extract.util.fat import FileStream
    from smpl_extract.util.sector import SectorStream
    from smpl_extract.util.stream import StreamOffset, StreamReversed, StreamWrapper

    objs: List[Any] = [io.BytesIO(base)]
    for sp in specs:
        k = sp[0]
        sub = objs[sp[1]]
        if k == "offset":
            o = StreamOffset(sub, sp[2], sp[3])
        elif k == "chain":
            o = FileStream(sub, sp[2], list(sp[3]))
        elif k == "sector":
            o = SectorStream(sub, sp[2], sp[3])
        elif k == "mdf":
            o = MdfStream(sub)
            if o.end_of_file != sp[2]:
                # the user-data view of k whole raw sectors (+ stray bytes) is k * 2048 bytes long (S178)
                raise ViewLength("mdf", int(o.end_of_file), int(sp[2]))
        elif k == "rev":
            o = StreamReversed(sub, sp[2], sp[3])
        elif k == "wrap":
            o = StreamWrapper(sub, sp[2])
        else:
            raise ValueError(k)
        objs.append(o)
    return objs


def spec_tokens(sp: tuple) -> str:
    k = sp[0]
    if k == "chain":
        return f"chain {sp[1]} {sp[2]} " + " ".join(map(str, sp[3]))
    return " ".join(map(str, sp))


def scenario_line(base: bytes, specs: Sequence[tuple], sched: Sequence[tuple]) -> str:
    setup = " | ".join([hx(base)] + [spec_tokens(sp) for sp in specs])
    ops = " | ".join(" ".join(map(str, op)) for op in sched)
    return f"stream {setup} || {ops}"


def run_real(objs, sched: Sequence[tuple]) -> List[str]:
    out = []
    for op in sched:
        o = objs[op[1]]
        try:
            if op[0] == "tell":
                out.append(f"ok {o.tell()}")
            elif op[0] == "seek":
                out.append(f"ok {o.seek(op[2], op[3])}")
            else:
                out.append("ok " + hx(o.read(op[2])))
        except Exception as e:
            n = impl.exc_name(e)
            out.append("err " + ("Other" if n.startswith("Other") else n))
    return out


def run_real_str(base, specs, sched) -> str:
    return " ; ".join(run_real(build_real(base, specs), sched))


# ------------------------------------------------------------------ independent specification


def length_of(base: bytes, specs, k: int) -> int:
    if k == 0:
        return len(base)
    sp = specs[k - 1]
    if sp[0] == "chain":
        return sp[2] * len(sp[3])
    return sp[2]


def denote(base: bytes, specs, k: int) -> Optional[bytes]:
    """logical content of object k, or None when the view is not well-formed (window outside its substream)."""
    if k == 0:
        return base
    sp = specs[k - 1]
    sub = denote(base, specs, sp[1])
    if sub is None:
        return None
    kind = sp[0]
    if kind in ("wrap",):
        return sub[: sp[2]] if 0 < sp[2] <= len(sub) else None
    if kind == "offset":
        eof, off = sp[2], sp[3]
        return sub[off : off + eof] if eof > 0 and off >= 0 and off + eof <= len(sub) else None
    if kind == "chain":
        L, secs = sp[2], sp[3]
        if L <= 0 or not secs or any((s + 1) * L > len(sub) for s in secs):
            return None
        return b"".join(sub[s * L : (s + 1) * L] for s in secs)
    if kind == "sector":
        eof, L = sp[2], sp[3]
        return sub[:eof] if L > 0 and 0 < eof <= len(sub) else None
    if kind == "mdf":
        n = len(sub) // 2352
        if n == 0 or sp[2] != n * 2048:
            return None
        return b"".join(sub[i * 2352 + 16 : i * 2352 + 16 + 2048] for i in range(n))
    if kind == "rev":
        eof, w = sp[2], sp[3]
        if not (w > 0 and 0 < eof <= len(sub) and eof % w == 0):
            return None
        body = sub[:eof]
        return b"".join(body[i : i + w] for i in range(eof - w, -1, -w))
    raise ValueError(kind)


def is_rev(specs, k) -> Optional[int]:
    return specs[k - 1][3] if k > 0 and specs[k - 1][0] == "rev" else None


class AbsFile:
    """the ordinary read-only file of the property: content, cursor, Python seek/read/tell rules."""

    def __init__(self, content: bytes, w: Optional[int] = None):
        self.c, self.p, self.w = content, 0, w

    def op(self, op) -> str:
        n = len(self.c)
        if op[0] == "tell":
            return f"ok {self.p}"
        if op[0] == "seek":
            base = self.p if op[3] == 1 else (n if op[3] == 2 else 0)
            new = min(max(base + op[2], 0), n)
            if self.w and (n - new) % self.w != 0:
                return "err BadAlign"
            self.p = new
            return f"ok {new}"
        size = op[2]
        r = self.c[self.p : self.p + size]
        if self.w and len(r) % self.w != 0:
            return "err BadReadSize"
        self.p += len(r)
        return "ok " + hx(r)


# ------------------------------------------------------------------ generators


def small_ops(length: int, k: int):
    ops = [("tell", k)]
    for off in (-1, 0, 1, 2, length, length + 1):
        for wh in (0, 1, 2):
            ops.append(("seek", k, off, wh))
    for n in (0, 1, 2, 3, length, length + 1):
        ops.append(("read", k, n))
    return ops


def tiny_shapes():
    """(name, base, specs, root) — tiny streams for exhaustive histories."""
    b12 = bytes(range(16, 28))
    shapes = [
        ("offset", b12, [("offset", 0, 6, 3)], 1),
        ("chain/offset", b12, [("offset", 0, 8, 2), ("chain", 1, 2, (3, 0, 1))], 2),
        ("wrap/chain", b12, [("chain", 0, 3, (2, 0, 3)), ("wrap", 1, 7)], 2),
        ("offset/wrap/chain", b12, [("chain", 0, 4, (1, 2)), ("wrap", 1, 8), ("offset", 2, 4, 3)], 3),
        ("rev/offset", b12, [("offset", 0, 6, 2), ("rev", 1, 6, 2)], 2),
        ("sector", b12, [("sector", 0, 7, 3)], 1),
        ("empty window", b12, [("offset", 0, 0, 3)], 1),
        ("offset/empty wrap/chain", b12, [("chain", 0, 4, (1, 2)), ("wrap", 1, 0), ("offset", 2, 4, 3)], 3),
    ]
    return shapes


def mdf_shape(nsec=2, tail=100):
    base = bytearray()
    for i in range(nsec):
        base += bytes([0] + [0xFF] * 10 + [0]) + bytes([0, 0, i, 1])
        base += bytes(((i * 37 + j * 7) % 251 for j in range(2048)))
        base += bytes([0xEE] * 288)
    base += bytes([0xAB] * tail)
    return ("mdf", bytes(base), [("mdf", 0, nsec * 2048)], 1)


def random_nest(rng, depth_max=4):
    """random well-formed nesting over a random base; returns (base, specs, roots)."""
    n = rng.randint(24, 120)
    base = bytes(rng.randrange(256) for _ in range(n))
    specs: List[tuple] = []
    cur, curlen = 0, n
    for d in range(rng.randint(1, depth_max)):
        kinds = ["offset", "chain", "wrap", "sector"]
        if curlen % 2 == 0:
            kinds.append("rev")
        kind = rng.choice(kinds)
        if kind == "offset":
            eof = rng.randint(1, curlen)
            off = rng.randint(0, curlen - eof)
            specs.append(("offset", cur, eof, off))
            curlen = eof
        elif kind == "wrap":
            eof = rng.randint(1, curlen)
            specs.append(("wrap", cur, eof))
            curlen = eof
        elif kind == "sector":
            eof = rng.randint(1, curlen)
            specs.append(("sector", cur, eof, rng.randint(1, 9)))
            curlen = eof
        elif kind == "chain":
            L = rng.randint(1, 9)
            nsec = curlen // L
            if nsec == 0:
                continue
            k = rng.randint(1, min(nsec, 8))
            secs = rng.sample(range(nsec), k)
            if rng.random() < 0.3:
                secs.sort()
            elif nsec >= 5 and rng.random() < 0.35:
                # a run a..a+m-1 whose end points are in place and whose interior is scrambled, between two
                # other sectors (S69: a multi-sector read that trusts the end points of a run)
                m = rng.randint(3, min(6, nsec - 2))
                a = rng.randint(0, nsec - m)
                inner = list(range(a + 1, a + m - 1))
                if len(inner) > 1:
                    while inner == sorted(inner):
                        rng.shuffle(inner)
                    mid = [a] + inner + [a + m - 1]
                else:
                    # m == 3: put a sector from outside the run between the end points
                    others = [x for x in range(nsec) if x not in (a, a + 1, a + 2)]
                    mid = [a, rng.choice(others), a + 2] if others else [a, a + 1, a + 2]
                rest = [x for x in range(nsec) if x not in mid]
                rng.shuffle(rest)
                head, tail = rest[:1], rest[1:2]
                secs = head + mid + tail
                k = len(secs)
            specs.append(("chain", cur, L, tuple(secs)))
            curlen = L * k
        else:
            w = rng.choice([1, 2, 2, 4]) if curlen % 4 == 0 else rng.choice([1, 2])
            eof = (rng.randint(1, curlen) // w) * w
            if eof == 0:
                continue
            specs.append(("rev", cur, eof, w))
            curlen = eof
        cur = len(specs)
    return base, specs, cur, curlen


def random_ops(rng, k, length, count, w=None):
    ops = []
    for _ in range(count):
        r = rng.random()
        if r < 0.15:
            ops.append(("tell", k))
        elif r < 0.5:
            wh = rng.choice([0, 0, 1, 2])
            off = rng.choice([0, 1, -1, length, -length, rng.randint(-length - 2, length + 2)])
            if w and rng.random() < 0.8:
                off = (off // w) * w
            ops.append(("seek", k, off, wh))
        else:
            n = rng.choice([0, 1, 2, 3, 5, 8, 13, length, length, length + 3, rng.randint(0, length + 2), rng.randint(length // 2, length + 2)])
            if w and rng.random() < 0.8:
                n = (n // w) * w
            ops.append(("read", k, n))
    return ops
